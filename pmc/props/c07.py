"""C07 - OpenMKM thermo YAML, Cantera CTI and reactor YAML files transcribe the model.

Five explorations on the real writers, one reference reader (pmc/ref/omkm.py):

  A2  phases   explicit-state BFS over species-population histories on 2-3 coexisting phase
               objects (constructed with / without a ``species`` argument, with ONE list object
               handed to two constructors, directly and through ``organize_phases``); reference
               model = one Python list per phase; the lists and dictionaries the caller hands over
               stay the caller's.
  B1  reactor  deviation-bounded product over the ``write_yaml`` parameters x value kinds
               (omitted, int, float, numpy.int64, numpy.float64, string with unit, lists, arrays,
               generic dictionaries, phases given / omitted / dict, units given / None / dict);
               every population of the phases argument: 0 .. 3 (thorough 4) gas phases x bulk phases x
               interfaces, the list grouped by type / reversed / interleaved, or given as a dictionary;
               every call repeated, the caller's containers compared with a copy taken before.
  B2  thermo   deviation-bounded product over model / request coordinates; ``write_thermo_yaml``
               and ``write_cti`` of a freshly built model are read back with the reference readers
               and compared with a second, untouched copy of the model; afterwards the written
               model must still say what the untouched copy says.
  C   forms    the same evaluation, deviation-bounded product over HOW the numbers, lists and
               options are handed over: numeric typing of species / rate / interaction / BEP /
               phase inputs (Python int, float, NumPy scalars, integer arrays), compositions that
               name elements with an explicit count of zero (int / float / NumPy zero), order of the
               NASA-9 intervals, boundary values of explicit rate inputs (0, 0.0, 1, None),
               unnamed BEPs, T / P typing, units as object / dict / None, an explicit empty list,
               another model written first in the same process, the same model written before.
  A1  writes   all sequences of {write_cti, write_thermo_yaml, add reaction (id None), add lateral
               interaction (name None)} and of {write_cti, write_thermo_yaml, add a reaction with a
               new unnamed BEP, edit the objects in place} up to a depth: every file well formed,
               ids unique and stable, a model written twice gives the same file, a model edited
               in place is written with its new content; third alphabet {writer @ request}: the same
               objects written for different requests (Motz-Wise on / off, T, P + adsorption method, units)
               one after the other - every file says what was asked for IT.
  D   moves    species MOVED between coexisting phase objects (the other interface, a spare interface, a
               spare gas phase; one or two species; add-then-remove, remove-then-add, interleaved, added by
               mistake and removed again, round trips; append / extend / species setter x remove / pop /
               setter / clear), then the model is written by both writers and compared with the model
               whose phases list the species where the history left them.

  E   big      a generated model (40 species, 28 reactions, 12 BEPs, 3 interactions, three phases) large enough
               for every field the CTI writer lays out over several lines (species, elements, phases, beps) to
               wrap: every name style (species / phase / BEP names and id prefixes containing '-', '/', '.', ':',
               '+' or none) x every shift of the first name of each list, so that every name reaches the end of a
               line in turn; its reactions are a ladder of barriers (adsorption and other steps x explicit
               transition state / BEP / none x exothermic / endothermic x transition state below, between, above
               the two ends), written for every request (adsorption method x T x P x units).

The expected activation energies do not come from the reaction getters: the harness combines each
species' own get_GoRT / get_HoRT at the requested T and P into max(0, TS - initial, final - initial).
"""
import contextlib
import copy
import io
import itertools
import os
import re
import shutil
import tempfile

import numpy as np

from pmc.ref import omkm as ref

ID = 'C07'
RULE = ('phases: BFS over population histories, states de-duplicated on (species names per phase, '
        'which phases share one list object), non-trivial = reached by >= 1 operation with >= 2 '
        'phases non-empty or differing; reactor: base option set + every single and every pair of '
        '(parameter, value kind) deviations (thorough: + triples on a sub-alphabet) + every population of the phases '
        'argument (0-3, thorough 0-4, phases of each type; list grouped / reversed / interleaved, or dictionary), non-trivial = the '
        'deviation changes the expected file; thermo/CTI: default model + all single and pair '
        '(thorough: triple) coordinate deviations, each written by both writers, non-trivial = '
        'differs from the default in a coordinate that changes the file; forms: base model + every single '
        'deviation of a representation coordinate + pairs inside one family and with the request '
        'coordinates units / T,P typing / units argument (thorough: all pairs + triples inside two families), each written by both writers; '
        'writes: every operation sequence up to the depth from three (alphabet 1) / two (alphabet 2) '
        'initial id assignments, every sequence of (writer, request) up to depth 2 (thorough 3) from two models; '
        'moves: every move of the table x order x add kind x remove kind, every round trip, every move on four '
        'other models (thorough: + every chain of two moves), each written by both writers; big: generated model, every '
        'name style x every shift 1-13 of the first name of each wrapped list (CTI; YAML for two shifts per style in the '
        'quick tier), the barrier ladder under every request (adsorption method x T x P x units), polynomial classes, '
        'user ids, Motz-Wise, and their pairs with the name styles (thorough: both writers for every shift, + the request '
        'product for every style)')
ASSUMPTIONS = [
    'species coefficients, site densities, rate inputs come from fixed tables (stated in bounds); '
    'polynomial coefficients are transcribed, not recomputed, so one table per class suffices',
    'reaction / interaction ids supplied by the user have the form prefix_NNNN (four digits): other '
    'shapes are re-rendered by _get_omkm_range, which is property C18',
    'the value the model has for A of a non-adsorption step is kB/h / sigma_eff^(n_surf-1) '
    '(include_entropy=False, as the writers request; Ea is the Gibbs barrier and b = 1)',
    'P is handed through to the reaction getters as given (pMuTT documents atm in one place and '
    'bar in another; no conversion is demanded)',
    'unit conversions use pMuTT\'s own tables (their accuracy is property C12)',
    'with T omitted and multi_T given, reactor.temperature may be absent or multi_T[0] (same for '
    'P / flow_rate); the statement does not decide it',
    'a BEP without a name gets one from the writer (any non-empty string not used by another BEP of the '
    'file, kept by later writes); a BEP with a name keeps it',
    'polynomial coefficients are handed over as NumPy arrays (the documented type; float or integer dtype)',
    'an explicitly supplied empty list of interactions may give an empty section or no section',
    'the NASA-9 intervals of a species are written in ascending order whatever order the object holds them in '
    '(what to_omkm_yaml does and what Cantera requires)',
    'the model value of a computed Ea is max(0, TS - initial, final - initial) of the species\' own G/RT (H/RT for '
    'adsorption steps written with get_H_act) at the requested T and P, times RT; a BEP transition state lies '
    '(slope * delta_H + intercept) above the reactants (descriptor delta_H only)',
    'the Motz-Wise switch of a file is the one requested for that file (use_motz_wise of the call; omitted = off), '
    'whatever the reaction objects carry from their construction or from an earlier write',
    'a species that the population history leaves in exactly one phase belongs to that phase (site density for A, '
    'gas species of an adsorption step); histories that leave a species in two phases or in none are not written',
    'names contain no white space, quote characters, \'=\' or (for participants of reactions, which Reaction.from_string '
    'splits at it) \'+\'; the break characters explored are - / . : +',
    'the phases="..." field of an interface directive lists the names the interface was constructed with, in that order',
]
EXPLANATION = ('explicit-state exploration and deviation-bounded product enumeration executed on the real '
               'writers; every explored case is an execution of the implementation')

PLANNED_TAGS = [
    # A2
    'phase:no-species-arg', 'phase:species-arg', 'phase:organize_phases', 'op:append', 'op:extend',
    'op:remove', 'op:pop', 'op:clear', 'op:set', 'op:set-none', 'phases:2', 'phases:3', 'phase:shared-list-arg',
    # B1
    'kind:omitted', 'kind:int', 'kind:float', 'kind:np.int64', 'kind:np.float64', 'kind:str-unit',
    'kind:str', 'kind:bool', 'kind:list', 'kind:list-np', 'kind:array', 'kind:list-str', 'kind:list-mixed', 'kind:list-mixed2', 'kind:objs',
    'kind:dict-extra', 'kind:dict-override', 'phases:list', 'phases:dict', 'phases:omitted',
    'units:none', 'units:obj', 'units:dict', 'reactor:second write',
    'phases:three or more of one type (list)', 'phases:three or more of one type (dict)', 'phases:no phase of some type',
    'phases:list not grouped by type',
    # B2
    'cls:Nasa', 'cls:Nasa9', 'cls:Shomate', 'ids:auto', 'ids:user', 'ids:mix', 'ids:clash',
    'ads:gas_first', 'ads:surf_first', 'rxn:stick', 'rxn:bep', 'rxn:ts', 'rxn:plain', 'Ea:given',
    'A:given', 'units:kmol-refused', 'out:file', 'out:str', 'cti:ctml_writer accepted',
    'build:organize', 'build:direct', 'P!=1', 'ads_act:get_G_act', 'motz:on',
    # A1
    'hist:cti', 'hist:yaml', 'hist:add_rxn', 'hist:add_li', 'hist:same writer twice',
    'hist:write after add', 'hist:add_bep', 'hist:edit', 'hist:write after edit',
    'hist:request base', 'hist:request motz', 'hist:request P', 'hist:request T', 'hist:request units',
]

LEVEL_TEXT = ('Bounded exhaustive exploration of the real writers: BFS over phase-population histories on '
              'coexisting phase objects (every state and transition checked against one-list-per-phase), '
              'complete single+pair deviation product over write_yaml parameters x value kinds, complete '
              'single+pair (thorough: triple) deviation product over model/request coordinates for '
              'write_thermo_yaml and write_cti read back by independent YAML/ast readers and compared with '
              'an untouched copy of the model, a single+pair deviation product over the representation of the '
              'inputs (numeric typing, interval order, boundary values, unnamed BEPs, argument forms, prior writes), '
              'all write/add/edit histories and all (writer, request) sequences up to the stated depth, and all '
              'moves of a species between coexisting phases (orders x add kinds x remove kinds, round trips) followed '
              'by both writers; expected activation energies are recombined by the harness from the species getters.')
LEVEL_NOTE = ('Finite tables of species / reactions (17 species, <= 12 reactions, <= 3 interactions, <= 5 BEPs); '
              'user ids restricted to prefix_NNNN; population depth 3 (quick) / 4 (thorough); representation pairs '
              'restricted in the quick tier to one family or a request coordinate.')
TECHNIQUE = ('explicit-state BFS over operation histories + deviation-bounded product enumeration on the '
             'implementation, reference-reader oracle')


# =============================================================================================
# helpers
# =============================================================================================
@contextlib.contextmanager
def _quiet():
    """ctml_writer prints diagnostics to stderr/stdout; keep the run output clean."""
    with contextlib.redirect_stderr(io.StringIO()), contextlib.redirect_stdout(io.StringIO()):
        yield


def _strip_stamp(text):
    """Drop the '# File generated by pMuTT ... on <date>' line."""
    return '\n'.join(l for l in text.split('\n') if not l.startswith('# File generated by'))


def _snapshot_defaults():
    """Mutable default arguments of the phase / BEP constructors are part of the system under
    test (a shared default list is the defect class of A2).  To keep every history
    self-contained (= reproducible in a fresh process) the harness restores them to their
    import-time content after each history; with an immutable default this is a no-op."""
    from pmutt.omkm import phase as op
    from pmutt.cantera import phase as cp
    snap = []
    for cls in (op.InteractingInterface, op.IdealGas, op.StoichSolid, cp.IdealGas, cp.StoichSolid,
                cp.Phase):
        fn = cls.__init__
        for d in (fn.__defaults__ or ()):
            if isinstance(d, (list, dict, set)):
                snap.append((d, copy.copy(d)))
    return snap


_SNAP = None


def _reset_defaults():
    global _SNAP
    if _SNAP is None:
        _SNAP = _snapshot_defaults()
        return
    for live, orig in _SNAP:
        if isinstance(live, list):
            live[:] = orig
        else:
            live.clear()
            live.update(orig)


# =============================================================================================
# species tables (shared by A2, B2, A1)
# =============================================================================================
# name: (elements, phase name, cp/R, h/R [K], s/R, n_sites)
SPEC = {
    'H2': ({'H': 2}, 'gas', 3.5, 0., 15.7, None),
    'N2': ({'N': 2}, 'gas', 3.6, 0., 23.0, None),
    'NH3': ({'N': 1, 'H': 3}, 'gas', 4.3, -5500., 23.1, None),
    'RU(B)': ({'Ru': 1}, 'bulk', 3.0, 0., 3.4, None),
    'RU(T)': ({'Ru': 1}, 'terrace', 2.0, 0., 2.0, 1),
    'H(T)': ({'H': 1}, 'terrace', 2.2, -3000., 1.5, 1),
    'N(T)': ({'N': 1}, 'terrace', 2.4, -4000., 2.5, 1),
    'NH(T)': ({'N': 1, 'H': 1}, 'terrace', 2.8, -7500., 3.5, 1),
    'NH2(T)': ({'N': 1, 'H': 2}, 'terrace', 3.1, -9800., 4.1, 1),
    'NH3(T)': ({'N': 1, 'H': 3}, 'terrace', 3.9, -3500., 6.2, 1),
    'TS1(T)': ({'N': 1, 'H': 1, 'Ru': 1}, 'terrace', 2.9, -1100., 3.2, 2),
    'RU(S)': ({'Ru': 1}, 'step', 2.1, 0., 2.1, 1),
    'H(S)': ({'H': 1}, 'step', 2.3, -3400., 1.6, 1),
    'N(S)': ({'N': 1}, 'step', 2.5, -4700., 2.7, 1),
    'NH(S)': ({'N': 1, 'H': 1}, 'step', 2.9, -7900., 3.7, 1),
}
ORDER_T = ['H2', 'N2', 'NH3', 'Ar', 'RU(B)', 'RU(T)', 'H(T)', 'N(T)', 'NH(T)', 'NH2(T)', 'NH3(T)', 'TS1(T)']
ORDER_S = ['RU(S)', 'H(S)', 'N(S)', 'NH(S)']
SDEN = {'terrace': 2.1671e-09, 'step': 4.4385e-10}      # mol/cm2
DENSITY = 12.4                                          # g/cm3
# spare phases of the part "moves": constructed without species, populated by the history, written when non-empty
SPARE = {'kink': dict(kind='interacting_interface', cls='InteractingInterface', site_density=7.5e-10),
         'feed': dict(kind='ideal_gas', cls='IdealGas')}
AR_A = [20.78600, 2.825911e-7, -1.464191e-7, 1.092131e-8, -3.661371e-8, -6.19735, 179.999, 0.]


def _k(name):
    return 1.0 + 0.37 * sorted(SPEC).index(name)


# numeric typing of the species inputs (family "integer-typed / NumPy-typed inputs"):
#   form: (temperature bound, element count, n_sites, coefficient array)
SP_FORMS = ['plain', 'pyfloat', 'int', 'np', 'npint']
# order in which the SingleNasa9 intervals are handed to Nasa9 (family "unsorted / descending arrays");
# positions refer to the ascending list of three intervals
N9_ORDERS = {'asc': [0, 1, 2], 'desc': [2, 1, 0], 'rot': [1, 2, 0], 'swap': [1, 0, 2], 'two-desc': [1, 0],
             'one': [0]}


def _sp_casters(form):
    """-> (T, element count, n_sites, coefficients) casters of one numeric form."""
    rnd = lambda v: int(round(v))                                        # noqa: E731
    if form == 'plain':
        return float, int, int, lambda a: np.array(a, dtype=float)
    if form == 'pyfloat':                         # what pmutt.io.excel.read_excel hands over
        return float, float, float, lambda a: np.array(a, dtype=float)
    if form == 'int':
        return rnd, int, int, lambda a: np.array([rnd(v) for v in a], dtype=np.int64)
    if form == 'np':
        return np.float64, np.int64, np.int64, lambda a: np.array(a, dtype=float)
    if form == 'npint':
        return (lambda v: np.int64(rnd(v))), np.float64, np.float64, \
            lambda a: np.array([rnd(v) for v in a], dtype=np.int32)
    raise ValueError(form)


# which elements a composition dictionary names (family "boundary values": an explicit count of zero)
#   present   only the elements the species contains (a hand-written dictionary)
#   zeros     one entry per element of the mechanism, 0 where the species does not contain it (what read_excel makes
#             of a sheet with one elements.X column per element): the gas phase names Ru, the bulk names H and N
#   zero-one  ONE species of each phase names an element (Pt) that no species of the model contains, with count 0
#   zero-own  every species names Pt with count 0 and nothing else it does not contain
# The zero has the numeric type of the species' other counts (int, float, numpy.int64, numpy.float64: sp_form).
EL_FORMS = ['present', 'zeros', 'zero-one', 'zero-own']
MECH_EL = ['H', 'N', 'Ru', 'Ar']
ZERO_ONE = ['N2', 'RU(B)', 'NH(T)', 'H(S)']            # one species per phase, neither the first nor the only candidate


def _el_form(name, el, form, mech=MECH_EL):
    """The composition dictionary of the species in the requested form (counts as in the table; zeros as int 0)."""
    if form == 'present':
        return dict(el)
    if form == 'zeros':
        return {e: el.get(e, 0) for e in list(mech) + [e for e in el if e not in mech]}
    if form == 'zero-one':
        return dict(el, Pt=0) if name in ZERO_ONE else dict(el)
    if form == 'zero-own':
        return dict({'Pt': 0}, **el)
    raise ValueError(form)


def make_species(name, cls, phase_as_name=True, phase=None, form='plain', n9='asc', row=None, k=None, el_form='present'):
    """One species object of the requested polynomial class from the table (or from an explicit table row
    (elements, phase name, cp/R, h/R, s/R, n_sites) with its own scale k: the generated model of the part "big")."""
    from pmutt.empirical.nasa import Nasa, Nasa9, SingleNasa9
    from pmutt.empirical.shomate import Shomate
    from pmutt import constants as c
    if name == 'Ar':
        return Shomate(name='Ar', elements=_el_form('Ar', {'Ar': 1}, el_form), phase='gas' if phase_as_name else phase,
                       T_low=298., T_high=6000., a=np.array(AR_A))
    fT, fE, fS, fA = _sp_casters(form)
    el, ph, cp, h, s, ns = SPEC[name] if row is None else row
    el = {k_: fE(v) for k_, v in _el_form(name, el, el_form).items()}
    ns = None if ns is None else fS(ns)
    k = _k(name) if k is None else k
    ph = ph if phase_as_name else phase
    if cls == 'nasa':
        al = fA([cp, 1.1e-3 * k, -1.3e-6 * k, 1.7e-9 * k, -1.9e-13 * k, h - 50.25 * k, s])
        ah = fA([cp + 0.125, 0.9e-3 * k, -0.7e-6 * k, 0.3e-9 * k, -0.5e-13 * k, h - 61.5 * k, s + 0.375])
        return Nasa(name=name, elements=el, phase=ph, a_low=al, a_high=ah, T_low=fT(200. + k),
                    T_mid=fT(480. + 3 * k), T_high=fT(1500. + 7 * k), n_sites=ns)
    if cls == 'nasa9':
        segs = []
        n_seg = len(N9_ORDERS[n9])            # 1, 2 or 3 intervals over the same overall range
        bounds = [200. + k, 480. + 3 * k, 1000. + 5 * k][:n_seg] + [2500. + 7 * k]
        for j in range(n_seg):
            a = fA([11.0 * k * (j + 1), -0.31 * k, cp + 0.0625 * j, 1.1e-3 * k, -1.3e-6 * k, 1.7e-9 * k,
                    -1.9e-13 * k / (j + 1), h - 50.25 * k - j, s + 0.125 * j])
            segs.append(SingleNasa9(T_low=fT(bounds[j]), T_high=fT(bounds[j + 1]), a=a))
        return Nasa9(name=name, elements=el, phase=ph, nasas=[segs[j] for j in N9_ORDERS[n9]], n_sites=ns)
    if cls == 'shomate':
        R = c.R('J/mol/K')
        a = fA([cp * R, 1.9 * k, -1.1 * k, 0.23 * k, 0.011 * k, h * R / 1000. - 0.05 * k, s * R + 7.0, 0.5 * k])
        return Shomate(name=name, elements=el, phase=ph, a=a, T_low=fT(250. + k), T_high=fT(1700. + 7 * k),
                       n_sites=ns)
    raise ValueError(cls)


def species_record(sp):
    """What the object says (the reference for the species section), read from public attributes."""
    tname = type(sp).__name__
    rec = dict(name=sp.name, composition={k: float(v) for k, v in sp.elements.items()},
               sites=sp.n_sites, cls=tname)
    if tname == 'Nasa':
        rec['model'] = 'NASA7'
        rec['ranges'] = [float(sp.T_low), float(sp.T_mid), float(sp.T_high)]
        rec['rows'] = [[float(v) for v in sp.a_low], [float(v) for v in sp.a_high]]
    elif tname == 'Nasa9':
        segs = sorted(sp.nasas, key=lambda n: n.T_low)
        rec['model'] = 'NASA9'
        rec['ranges'] = [float(n.T_low) for n in segs] + [float(segs[-1].T_high)]
        rec['rows'] = [[float(v) for v in n.a] for n in segs]
    elif tname == 'Shomate':
        rec['model'] = 'Shomate'
        rec['ranges'] = [float(sp.T_low), float(sp.T_high)]
        rec['rows'] = [[float(v) for v in sp.a[:7]]]
    else:
        raise ValueError(tname)
    return rec


# =============================================================================================
# A2 - phase population histories
# =============================================================================================
POOL = ['H2', 'N2', 'RU(T)', 'NH(T)']
EXT_PAIRS = [['H2', 'N2'], ['RU(T)', 'NH(T)']]
SET_LISTS = [['N2', 'H2'], ['NH(T)']]
PH_CLS = {'II': 'InteractingInterface', 'IG': 'IdealGas', 'SS': 'StoichSolid'}

# (via, pool class, [(cls, name, init-or-None), ...])
PHASE_SETUPS = [
    ('direct', 'nasa', [('II', 'terrace', None), ('II', 'step', None)]),
    ('direct', 'shomate', [('II', 'terrace', None), ('II', 'step', ['H2'])]),
    ('direct', 'nasa9', [('II', 'terrace', ['H2', 'N2']), ('II', 'step', None)]),
    ('direct', 'nasa', [('II', 'terrace', []), ('II', 'step', [])]),
    ('direct', 'nasa', [('II', 'terrace', ['RU(T)']), ('II', 'step', ['NH(T)'])]),
    ('direct', 'nasa', [('IG', 'gas', None), ('IG', 'gas2', None)]),
    ('direct', 'shomate', [('IG', 'gas', None), ('II', 'terrace', None)]),
    ('direct', 'nasa', [('SS', 'bulk', None), ('SS', 'bulk2', None)]),
    ('direct', 'nasa9', [('SS', 'bulk', None), ('II', 'terrace', None)]),
    ('direct', 'nasa', [('IG', 'gas', ['H2']), ('SS', 'bulk', None)]),
    ('organize', 'nasa', [('IG', 'gas', ['H2', 'N2']), ('II', 'terrace', None)]),
    ('organize', 'nasa', [('II', 'terrace', None), ('II', 'step', None)]),
    ('organize', 'shomate', [('II', 'terrace', ['RU(T)']), ('II', 'step', ['NH(T)'])]),
    ('direct', 'nasa', [('II', 'terrace', None), ('II', 'step', None), ('II', 'kink', None)]),
    ('direct', 'nasa', [('IG', 'gas', None), ('II', 'terrace', None), ('II', 'step', None)]),
    ('direct', 'shomate', [('IG', 'gas', ['H2']), ('SS', 'bulk', None), ('II', 'terrace', None)]),
    ('organize', 'nasa', [('IG', 'gas', ['H2']), ('II', 'terrace', None), ('II', 'step', None)]),
    ('direct', 'nasa9', [('II', 'terrace', ['H2']), ('II', 'step', None), ('IG', 'gas', None)]),
    # the caller hands ONE list object to two constructors (equal init lists share the object)
    ('direct-shared', 'nasa', [('IG', 'gas', ['H2']), ('IG', 'gas2', ['H2'])]),
    ('direct-shared', 'shomate', [('II', 'terrace', ['RU(T)', 'NH(T)']), ('II', 'step', ['RU(T)', 'NH(T)'])]),
    ('direct-shared', 'nasa', [('SS', 'bulk', []), ('II', 'terrace', []), ('IG', 'gas', ['N2'])]),
    # compositions with explicit zero counts (pool class : element form : numeric form of the counts)
    ('direct', 'nasa:zeros', [('IG', 'gas', None), ('II', 'terrace', ['RU(T)'])]),
    ('direct', 'shomate:zero-one:pyfloat', [('II', 'terrace', None), ('SS', 'bulk', ['H2'])]),
    ('organize', 'nasa9:zeros:np', [('IG', 'gas', ['H2']), ('II', 'terrace', None), ('SS', 'bulk', None)]),
]


def _ph_pool_form(setup):
    """'nasa' / 'nasa:zeros' / 'shomate:zero-one:np' -> (numeric form, element form) of the species of the pool."""
    parts = setup['pool_cls'].split(':')
    return (parts[2] if len(parts) > 2 else 'plain'), (parts[1] if len(parts) > 1 else 'present')


def _ph_elements(setup, names):
    """Reference: the union of the element names the compositions of the listed species carry (whatever the count)."""
    els = set()
    for n in names:
        els |= set(_el_form(n, SPEC[n][0], _ph_pool_form(setup)[1]))
    return els


def _phase_kwargs(cls, name):
    if cls == 'II':
        return dict(name=name, site_density=SDEN.get(name, 1.0e-9), phases=['gas', 'bulk'])
    if cls == 'SS':
        return dict(name=name, density=DENSITY)
    return dict(name=name)


C_ORG_ALONE = "organize_phases leaves the caller's dictionaries as they were"
C_ORG_AGAIN = 'organize_phases called again with the same dictionaries (and fresh species) builds the phases again'


def _build_phases(setup, probe=None):
    """-> (real phase objects, species pool dict, reference lists)."""
    from pmutt.omkm import phase as omkm_phase
    from pmutt.io.omkm import organize_phases
    via, pcls, specs = setup['via'], setup['pool_cls'], setup['phases']
    def make_pool():
        out = {}
        for n in POOL:
            home = None
            for cls, name, init in specs:
                if init and n in init:
                    home = name
            sp = make_species(n, pcls.split(':')[0], form=_ph_pool_form(setup)[0], el_form=_ph_pool_form(setup)[1])
            sp.phase = home if via == 'organize' else None
            out[n] = sp
        return out

    def in_order(pl):
        # organize_phases keeps the order of the species list inside each phase
        out = []
        for cls, name, init in specs:
            out += [pl[n] for n in (init or [])]
        return out + [pl[n] for n in POOL if pl[n] not in out]
    pool = make_pool()
    refl = [list(init) if init else [] for _, _, init in specs]
    if via == 'organize':
        data = []
        for cls, name, init in specs:
            d = _phase_kwargs(cls, name)
            d['phase_type'] = PH_CLS[cls]
            data.append(d)
        before = copy.deepcopy(data)
        phases = organize_phases(data, species=in_order(pool))
        if probe is not None:
            # the caller's list of dictionaries is the caller's: unchanged, and good for a second call
            # (with a fresh set of species: the first call has bound the species to their phase objects)
            ctx, case = probe
            sig = {'part': 'phases', 'via': 'organize', 'op': 'organize_phases'}
            same = [sorted(d.items(), key=str) for d in data] == [sorted(d.items(), key=str) for d in before]
            ctx.true(C_ORG_ALONE, same, dict(sig, item="caller's dictionaries"), case,
                     [sorted(set(a) ^ set(b)) for a, b in zip(data, before)], 'unchanged')
            try:
                again = organize_phases(data, species=in_order(make_pool()))
                obs = [[type(ph).__name__, ph.name, [sp.name for sp in ph.species]] for ph in again]
            except KeyError as e:
                obs = 'KeyError %s' % e
            ctx.equal(C_ORG_AGAIN, obs, [[PH_CLS[cls], name, list(init or [])] for cls, name, init in specs],
                      dict(sig, item='second call'), case)
            ctx.evals(2)
    else:
        phases = []
        shared = {}
        for p, (cls, name, init) in enumerate(specs):
            kw = _phase_kwargs(cls, name)
            if init is not None:
                lst = [pool[n] for n in init]
                if via == 'direct-shared':
                    lst = shared.setdefault(tuple(init), lst)
                kw['species'] = lst
                GIVEN.append((p, lst, list(init)))
            phases.append(getattr(omkm_phase, PH_CLS[cls])(**kw))
    return phases, pool, refl


def _ph_ops(refl):
    ops = []
    for p, cur in enumerate(refl):
        ops += [['append', p, s] for s in POOL if s not in cur]
        ops += [['extend', p, pr] for pr in EXT_PAIRS if not (set(pr) & set(cur))]
        ops += [['remove', p, s] for s in cur]
        if cur:
            ops += [['pop', p, i] for i in sorted({0, len(cur) - 1})]
        ops.append(['clear', p])
        ops += [['set', p, l] for l in SET_LISTS]
        ops.append(['set_none', p])
    return ops


def _ph_apply(phases, pool, refl, op):
    """Apply one operation to the real phase and to the reference list."""
    kind, p = op[0], op[1]
    ph = phases[p]
    if kind == 'append':
        ph.append_species(pool[op[2]])
        refl[p].append(op[2])
    elif kind == 'extend':
        ph.extend_species([pool[n] for n in op[2]])
        refl[p].extend(op[2])
    elif kind == 'remove':
        ph.remove_species(op[2])
        refl[p].remove(op[2])
    elif kind == 'pop':
        ph.pop_species(op[2])
        refl[p].pop(op[2])
    elif kind == 'clear':
        ph.clear_species()
        del refl[p][:]
    elif kind == 'set':
        lst = [pool[n] for n in op[2]]
        ph.species = lst
        GIVEN.append((p, lst, list(op[2])))
        refl[p] = list(op[2])
    elif kind == 'set_none':
        ph.species = None
        refl[p] = []
    else:
        raise ValueError(kind)


def _ph_key(phases):
    names = tuple(tuple(s.name for s in ph.species) for ph in phases)
    alias = []
    for i, ph in enumerate(phases):
        alias.append(min(j for j in range(i + 1) if phases[j].species is ph.species))
    return names, tuple(alias)


def _ph_sig(setup, p, op):
    cls, name, init = setup['phases'][p]
    if setup['via'] == 'direct-shared':       # one defect class (aliasing through the caller's list): one signature
        return {'part': 'phases', 'cls': PH_CLS[cls], 'via': 'direct-shared'}
    return {'part': 'phases', 'cls': PH_CLS[cls], 'init': 'no-species-arg' if init is None else 'species-arg',
            'via': setup['via'], 'op': op[0] if op else 'construct'}


# lists the harness (as the caller) handed to a constructor or to the species setter in the current history:
# (phase index, the list object, the names it was made with)
GIVEN = []
C_PH_GIVEN = 'a list handed to a phase stays as the caller made it'


def _ph_listing(phases, refl, setup, op, ctx, case):
    """Clause on every state and transition: each phase lists exactly its own species/elements."""
    ok = True
    for p, lst, names in GIVEN:
        sig = {'part': 'phases', 'cls': PH_CLS[setup['phases'][p][0]], 'item': "caller's list"}
        ok &= ctx.true(C_PH_GIVEN, [s.name for s in lst] == names, sig, case, [s.name for s in lst], names)
    for p, ph in enumerate(phases):
        sig = _ph_sig(setup, p, op)
        names = [s.name for s in ph.species]
        ok &= ctx.equal('phase lists exactly its own species (reference: one list per phase)', names,
                        list(refl[p]), sig, case)
        els = _ph_elements(setup, refl[p])
        ok &= ctx.equal('phase elements are the union over its own species', sorted(ph.elements), sorted(els),
                        sig, case)
    return bool(ok)


def _ph_emit(phases, refl, setup, op, ctx, case):
    """State invariant: what to_cti / to_omkm_yaml emit for each phase matches the reference list."""
    import yaml
    units = make_units('ex')
    ok = True
    for p, ph in enumerate(phases):
        sig = _ph_sig(setup, p, op)
        cls = setup['phases'][p][0]
        els = _ph_elements(setup, refl[p])
        # CTI
        text = ph.to_cti(units=units) if cls != 'IG' else ph.to_cti()
        ctx.evals()
        try:
            d = ref.parse_cti(text)
        except ref.CTIError as e:
            ok &= ctx.fail('phase to_cti is one CTI directive', sig, case, str(e), 'parses')
            continue
        want = {'II': 'interacting_interface', 'IG': 'ideal_gas', 'SS': 'stoichiometric_solid'}[cls]
        good = len(d) == 1 and d[0][0] == want and not d[0][1] and \
            all(isinstance(d[0][2].get(k), str) for k in ('name', 'species', 'elements'))
        ok &= ctx.true('phase to_cti is one CTI directive', good, sig, case, [x[0] for x in d], want)
        if not good:
            continue
        kw = d[0][2]
        ok &= ctx.equal('phase to_cti lists name, species, elements of the phase',
                        [kw['name'], kw['species'].split(), sorted(kw['elements'].split())],
                        [ph.name, list(refl[p]), sorted(els)], sig, case)
        # YAML
        ydict = ph.to_omkm_yaml(units=units)
        ctx.evals()
        ytext = yaml.dump({'phases': [ydict]}, default_flow_style=None, sort_keys=False)
        probs = ref.yaml_problems(ytext)
        ok &= ctx.true('phase to_omkm_yaml is plain YAML', not probs, sig, case, probs, [])
        y = ref.load_yaml(ytext)['phases'][0]
        ok &= ctx.equal('phase to_omkm_yaml lists name, species, elements of the phase',
                        [y.get('name'), y.get('species'), sorted(y.get('elements') or [])],
                        [ph.name, list(refl[p]), sorted(els)], sig, case)
    return bool(ok)


def _ph_probe(setup, ops, ctx, case):
    """After the history: a phase constructed without a species argument lists nothing."""
    from pmutt.omkm import phase as omkm_phase
    ok = True
    for cls in sorted({c for c, _, _ in setup['phases']}):
        fresh = getattr(omkm_phase, PH_CLS[cls])(**_phase_kwargs(cls, 'probe'))
        sig = {'part': 'phases', 'cls': PH_CLS[cls], 'init': 'no-species-arg', 'via': 'direct',
               'op': 'construct-after-history'}
        names = [s.name for s in fresh.species]
        ok &= ctx.true('a phase constructed without species lists none (after any history on other phases)',
                       names == [], sig, case, names, [])
    return bool(ok)


def _ph_replay(case, ctx, check_all):
    """Rebuild everything and replay the history on the real objects.
    Returns (phases, reference lists) or None when a clause failed."""
    setup, ops = case['setup'], case['ops']
    _reset_defaults()
    del GIVEN[:]
    try:
        phases, pool, refl = _build_phases(setup, probe=(ctx, case) if (check_all or not ops) else None)
        ctx.trace()
        ok = True
        if check_all or not ops:
            ok &= _ph_listing(phases, refl, setup, None, ctx, case)
            if ok:
                ok &= _ph_emit(phases, refl, setup, None, ctx, case)
        for k, op in enumerate(ops):
            if not ok:
                break
            _ph_apply(phases, pool, refl, op)
            if check_all or k == len(ops) - 1:
                ctx.trans()
                ctx.tag('op:' + {'set_none': 'set-none'}.get(op[0], op[0]))
                ok &= _ph_listing(phases, refl, setup, op, ctx, case)
                if ok and (check_all or case.get('emit', True)):
                    ok &= _ph_emit(phases, refl, setup, op, ctx, case)
        if ok:
            ok &= _ph_probe(setup, ops, ctx, case)
        return (phases, refl) if ok else None
    finally:
        _reset_defaults()


def _run_phases(shard, ctx):
    setup, depth = shard['setup'], shard['depth']
    ctx.tag('phases:%d' % len(setup['phases']))
    if setup['via'] == 'organize':
        ctx.tag('phase:organize_phases')
    if setup['via'] == 'direct-shared':
        ctx.tag('phase:shared-list-arg')
    for cls, name, init in setup['phases']:
        ctx.tag('phase:no-species-arg' if init is None else 'phase:species-arg')
    root = dict(kind='phases', setup=setup, ops=[])
    res = {}

    def run(case_, ctx_):
        res['out'] = _ph_replay(case_, ctx_, check_all=False)
    if not ctx.run_case(run, root, {'part': 'phases', 'op': 'construct', 'via': setup['via']}):
        return
    if res.get('out') is None:
        return
    phases, refl = res['out']
    seen = {_ph_key(phases)}
    ctx.state(('ph', shard['idx']) + _ph_key(phases))
    ctx.sample(root, limit=1)
    frontier = [([], [list(l) for l in refl])]
    for d in range(depth):
        nxt = []
        for hist, cur in frontier:
            for op in _ph_ops(cur):
                case = dict(kind='phases', setup=setup, ops=hist + [op])
                res = {}
                if not ctx.run_case(run, case, _ph_sig(setup, op[1], op)):
                    continue
                if res.get('out') is None:
                    continue                      # violated: reported, not expanded
                phases, refl2 = res['out']
                key = _ph_key(phases)
                if key not in seen:
                    seen.add(key)
                    ctx.state(('ph', shard['idx']) + key)
                    if sum(1 for l in refl2 if l) >= 2 or len({tuple(l) for l in refl2}) > 1:
                        ctx.nontrivial(('ph', shard['idx']) + key)
                    nxt.append((hist + [op], [list(l) for l in refl2]))
                    if d + 1 == depth:
                        ctx.sample(case, limit=2)
        frontier = nxt


# =============================================================================================
# model builder (B2, A1)
# =============================================================================================
UNIT_SYSTEMS = {
    'ex': dict(length='cm', time='s', quantity='mol', energy='kcal', act_energy='kcal/mol', pressure='atm', mass='g'),
    'default': dict(length='cm', time='s', quantity='molec', energy='cal', act_energy='cal/mol', pressure='bar', mass='kg'),
    'si': dict(length='m', time='s', quantity='mol', energy='J', act_energy='kJ/mol', pressure='Pa', mass='kg'),
    'kmol': dict(length='m', time='s', quantity='kmol', energy='J', act_energy='kJ/mol', pressure='Pa', mass='kg'),
}


def make_units(kind):
    from pmutt.omkm.units import Units
    if kind == 'default':
        return Units()
    return Units(**UNIT_SYSTEMS[kind])


DEF_CFG = dict(gas='nasa', surf='nasa', sites=2, build='organize', ids='auto', ads='gas_first', Ea='calc',
               A='calc', li=2, li_names='auto', bep=1, units='ex', T=700., P=1., motz=False,
               ads_act='get_H_act', out='str', sections='all',
               # representation coordinates (part "forms"); the defaults are what B2 / A1 always used
               sp_form='plain', el_form='present', n9='asc', stick='table', beta='table', li_form='list', bep_form='float',
               bep_names='user', ph_form='float', TP_form='float', units_arg='obj', li_arg='none',
               prior='none', rmotz='off', omit='none')
COORDS = dict(sections=['all', 'no_phases', 'no_species'], gas=['nasa', 'nasa9', 'shomate'], surf=['nasa', 'shomate', 'nasa9'], sites=[2, 1],
              build=['organize', 'direct'], ids=['auto', 'user', 'mix', 'clash'], ads=['gas_first', 'surf_first'],
              Ea=['calc', 'given'], A=['calc', 'given'], li=[2, 0, 1, 3], li_names=['auto', 'user', 'mix'],
              bep=[1, 0, 2], units=['ex', 'default', 'si', 'kmol'], T=[700., 300.], P=[1., 10., 0.05],
              motz=[False, True], ads_act=['get_H_act', 'get_G_act'], out=['str', 'file'],
              # the same objects were written before, by both writers, for the opposite request
              # (other units, T, P, Motz-Wise, adsorption method): each file says what was asked for IT
              prior=['none', 'flipped'])
COORD_ORDER = sorted(COORDS)

BEP_TABLE = {'NH-H': dict(slope=0.52, intercept=19.78, direction='cleavage', descriptor='delta_H'),
             'N-H': dict(slope=0.29, intercept=23.23, direction='cleavage', descriptor='delta_H')}
LI_TABLE = [dict(name_i='N(T)', name_j='N(T)', intervals=[0., 0.25], slopes=[-52.6, -11.5]),
            dict(name_i='N(T)', name_j='H(T)', intervals=[0.], slopes=[-17.7]),
            dict(name_i='H(T)', name_j='N(T)', intervals=[0., 0.5, 0.75], slopes=[-17.7, -3.0, 4.25])]
LI_EXTRA = dict(name_i='NH2(T)', name_j='N(T)', intervals=[0., 0.5], slopes=[-20.7, -6.5])


def reaction_table(cfg):
    """[(tag, string, kwargs)] - the reactions of the model, in file order."""
    sf = cfg['ads'] == 'surf_first'
    nb = cfg['bep']
    t = []
    t.append(('stick', 'H2 + 2RU(T) = 2H(T) + 2RU(B)' if not sf else '2RU(T) + H2 = 2H(T) + 2RU(B)',
              dict(is_adsorption=True, beta=0, sticking_coeff=0.5)))
    t.append(('stick', 'NH3 + RU(T) = NH3(T) + RU(B)' if not sf else 'RU(T) + NH3 = NH3(T) + RU(B)',
              dict(is_adsorption=True, beta=0.5, sticking_coeff=0.8,
                   Ea=3.5 if cfg['Ea'] == 'given' else None)))
    t.append(('ts', 'NH(T) + RU(T) = TS1(T) = N(T) + H(T) + RU(B)',
              dict(A=2.0e12 if cfg['A'] == 'given' else None)))
    if nb >= 1:
        t.append(('bep', 'NH2(T) + RU(T) = NH-H = NH(T) + H(T) + RU(B)', dict(direction='cleavage')))
        t.append(('bep', 'NH(T) + H(T) + RU(B) = NH-H = NH2(T) + RU(T)', dict(direction='synthesis')))
    else:
        t.append(('plain', 'NH2(T) + RU(T) = NH(T) + H(T) + RU(B)', {}))
        t.append(('plain', 'NH(T) + H(T) + RU(B) = NH2(T) + RU(T)', {}))
    t.append(('plain', 'NH3(T) + RU(T) = NH2(T) + H(T) + RU(B)',
              dict(A=1.5e13 if cfg['A'] == 'given' else None, Ea=12.25 if cfg['Ea'] == 'given' else None,
                   beta=0.75)))
    t.append(('plain', '2N(T) + 2RU(B) = N2 + 2RU(T)', {}))
    if nb >= 2:
        t.append(('bep', 'NH(T) + RU(T) = N-H = N(T) + H(T) + RU(B)', dict(direction='cleavage')))
    if cfg['sites'] == 2:
        t.append(('stick', 'H2 + 2RU(S) = 2H(S) + 2RU(B)' if not sf else '2RU(S) + H2 = 2H(S) + 2RU(B)',
                  dict(is_adsorption=True, beta=0, sticking_coeff=0.35)))
        t.append(('plain', 'NH(S) + RU(S) = N(S) + H(S) + RU(B)', {}))
        t.append(('plain', 'N(S) + H(S) + RU(B) = NH(S) + RU(S)', {}))
    return t


EXTRA_RXN = ('plain', 'N(T) + H(T) + RU(B) = NH(T) + RU(T)', {})

# kinds of the explicit rate inputs (families "boundary values of explicit options" and "integer-typed /
# NumPy-typed inputs"); 'calc' / 'given' / 'table' are what reaction_table itself does
EA_KINDS = ['calc', 'given', 'zero', 'izero', 'npzero', 'altzero', 'int', 'np']
A_KINDS = ['calc', 'given', 'float', 'int', 'np', 'zero']
STICK_KINDS = ['table', 'zero', 'izero', 'one', 'np', 'none']
BETA_KINDS = ['table', 'zero', 'izero', 'one', 'neg', 'np', 'none']


def rate_inputs(cfg, table):
    """Apply the rate-input kinds of the configuration to every reaction of the table (each reaction gets
    its own number, so that two reactions never carry the same value by accident)."""
    out = []
    n_ads = 0
    for i, (tag, string, kw) in enumerate(table):
        kw = dict(kw)
        ads = bool(kw.get('is_adsorption'))
        # the reaction's own Motz-Wise attribute (the file says what is requested for the file)
        rm = cfg.get('rmotz', 'off')
        if ads:
            if rm == 'on' or (rm == 'alt' and n_ads % 2 == 0):
                kw['use_motz_wise'] = True
            n_ads += 1
        ek = cfg.get('Ea', 'calc')
        if ek in ('zero', 'izero', 'npzero'):
            kw['Ea'] = {'zero': 0.0, 'izero': 0, 'npzero': np.float64(0.)}[ek]
        elif ek == 'altzero':
            kw['Ea'] = 0.0 if i % 2 == 0 else None
        elif ek == 'int':
            kw['Ea'] = 3 + 2 * i
        elif ek == 'np':
            kw['Ea'] = np.float64(2.5 + 1.25 * i)
        ak = cfg.get('A', 'calc')
        if not ads and ak not in ('calc', 'given'):
            kw['A'] = {'float': 1.0e13 * (i + 1), 'int': 10 ** 12 * (i + 1), 'np': np.float64(2.5e12 * (i + 1)),
                       'zero': 0.0}[ak]
        sk = cfg.get('stick', 'table')
        if ads and sk != 'table':
            kw['sticking_coeff'] = {'zero': 0.0, 'izero': 0, 'one': 1, 'np': np.float64(0.25 + 0.125 * i),
                                    'none': None}[sk]
        bk = cfg.get('beta', 'table')
        if bk != 'table':
            kw['beta'] = {'zero': 0.0, 'izero': 0, 'one': 1, 'neg': -0.5 - 0.25 * i, 'np': np.float64(0.25 * (i + 1)),
                          'none': None}[bk]
        out.append((tag, string, kw))
    return out


def _ids_for(cfg, n):
    k = cfg['ids']
    if k == 'auto':
        return [None] * n
    if k == 'user':
        return ['rxn_%04d' % (10 + i) for i in range(n)]
    if k == 'desc':
        return ['rxn_%04d' % (40 - i) for i in range(n)]
    if k == 'mix':
        return [('m_%04d' % (3 * i) if i % 2 == 0 else None) for i in range(n)]
    if k == 'clash':
        out = [None] * n
        out[-1] = 'r_0001'
        return out
    raise ValueError(k)


# representation of the interaction / BEP / phase numbers
LI_FORMS = ['list', 'int', 'tuple', 'array', 'list-np', 'intarr']
BEP_FORMS = ['float', 'int', 'np', 'zero']
BEP_NAMES = ['user', 'auto', 'clash', 'mix']
PH_FORMS = ['float', 'np', 'int']


def _li_kwargs(kw, form):
    kw = copy.deepcopy(kw)
    iv, sl = kw['intervals'], kw['slopes']
    if form == 'list':
        pass
    elif form == 'int':                     # what read_excel gives for "0, 1" style cells
        kw['intervals'] = [int(v) if float(v).is_integer() else v for v in iv]
        kw['slopes'] = [int(round(v)) for v in sl]
    elif form == 'tuple':
        kw['intervals'], kw['slopes'] = tuple(iv), tuple(sl)
    elif form == 'array':
        kw['intervals'], kw['slopes'] = np.array(iv), np.array(sl)
    elif form == 'list-np':
        kw['intervals'], kw['slopes'] = [np.float64(v) for v in iv], [np.float64(v) for v in sl]
    elif form == 'intarr':
        kw['intervals'], kw['slopes'] = np.array(iv), np.array([int(round(v)) for v in sl], dtype=np.int64)
    else:
        raise ValueError(form)
    return kw


def _bep_kwargs(kw, form, j):
    kw = dict(kw)
    if form == 'int':
        kw['slope'], kw['intercept'] = 1, 20 + j
    elif form == 'np':
        kw['slope'], kw['intercept'] = np.float64(kw['slope']), np.float64(kw['intercept'])
    elif form == 'zero':
        kw['slope'], kw['intercept'] = 0.0, 0.0
    elif form != 'float':
        raise ValueError(form)
    return kw


def _bep_names_for(cfg, keys):
    k = cfg.get('bep_names', 'user')
    if k == 'user':
        return list(keys)
    if k == 'auto':
        return [None] * len(keys)
    if k == 'clash':                        # a user name that looks like an automatic one, after an unnamed BEP
        return [None] * (len(keys) - 1) + ['b_0000'] if len(keys) > 1 else ['b_0000']
    if k == 'mix':
        return [(n if i % 2 == 0 else None) for i, n in enumerate(keys)]
    raise ValueError(k)


def _ph_num(value, form):
    if form == 'np':
        return np.float64(value)
    return value


class Model:
    pass


def build_model(cfg, phases=True):
    """Build the model the documented way.  Returns a Model with species, reactions,
    interactions, beps, phases, units plus plain-data bookkeeping."""
    from pmutt import pmutt_list_to_dict
    from pmutt.io.omkm import organize_phases
    from pmutt.mixture.cov import PiecewiseCovEffect
    from pmutt.omkm import phase as omkm_phase
    from pmutt.omkm.reaction import BEP, SurfaceReaction
    if cfg.get('big'):
        return build_big(cfg)
    m = Model()
    m.cfg = cfg
    names = ORDER_T + (ORDER_S if cfg['sites'] == 2 else [])
    m.species = []
    for n in names:
        cls = 'shomate' if n == 'Ar' else (cfg['gas'] if SPEC[n][1] == 'gas' else cfg['surf'])
        m.species.append(make_species(n, cls, form=cfg.get('sp_form', 'plain'), n9=cfg.get('n9', 'asc'),
                                      el_form=cfg.get('el_form', 'present')))
    keys = list(BEP_TABLE)[:cfg['bep']]
    m.bep_keys = keys
    m.beps = [BEP(name=nm, **_bep_kwargs(BEP_TABLE[bn], cfg.get('bep_form', 'float'), j))
              for j, (bn, nm) in enumerate(zip(keys, _bep_names_for(cfg, keys)))]
    d = pmutt_list_to_dict(m.species)
    for bn, b in zip(keys, m.beps):         # the key a reaction string uses; the BEP itself may be unnamed
        d[bn] = b
    m.lookup = d
    table = rate_inputs(cfg, reaction_table(cfg))
    ids = _ids_for(cfg, len(table))
    m.rxn_tags = [t[0] for t in table]
    m.reactions = [SurfaceReaction.from_string(s, d, id=i, **kw) for (tag, s, kw), i in zip(table, ids)]
    li_names = {'auto': [None, None, None], 'user': ['lat_0004', 'lat_0005', 'lat_0006'],
                'mix': ['q_0002', None, None]}[cfg['li_names']]
    m.interactions = [PiecewiseCovEffect(name=nm, **_li_kwargs(kw, cfg.get('li_form', 'list')))
                      for kw, nm in zip(LI_TABLE[:cfg['li']], li_names)]
    m.units = make_units(cfg['units'])
    m.phase_names = ['gas', 'bulk', 'terrace'] + (['step'] if cfg['sites'] == 2 else [])     # the phases written
    # which phase lists which species (reference; the part "moves" edits it along with the real phases)
    m.home = {n: phase_name_of(n) for n in names}
    m.members = {pn: [n for n in names if phase_name_of(n) == pn] for pn in m.phase_names + list(SPARE)}
    m.phase_kind = dict({pn: 'interacting_interface' for pn in m.phase_names}, gas='ideal_gas',
                        bulk='stoichiometric_solid', **{pn: kw['kind'] for pn, kw in SPARE.items()})
    m.sden = dict(SDEN)                     # site densities / density the phases are (re)built with
    m.density = 12 if cfg.get('ph_form') == 'int' else DENSITY
    if phases:
        attach_phases(m)
    return m


def attach_phases(m):
    """(Re)build the phase objects for the current reactions / interactions of the model."""
    from pmutt.io.omkm import organize_phases
    from pmutt.omkm import phase as omkm_phase
    cfg = m.cfg
    pf = cfg.get('ph_form', 'float')
    data = [dict(name='gas', phase_type='IdealGas', initial_state={'NH3': 1.0}),
            dict(name='bulk', phase_type='StoichSolid', density=_ph_num(m.density, pf)),
            dict(name='terrace', phase_type='InteractingInterface', site_density=_ph_num(m.sden['terrace'], pf),
                 phases=['gas', 'bulk'], initial_state={'RU(T)': 1.0})]
    if cfg['sites'] == 2:
        data.append(dict(name='step', phase_type='InteractingInterface', site_density=_ph_num(m.sden['step'], pf),
                         phases=['gas', 'bulk'], initial_state={'RU(S)': 1.0}))
    inter = m.interactions if m.interactions else None
    if cfg['build'] == 'organize' and not getattr(m, 'organized', False):
        m.phases = organize_phases(data, species=m.species, reactions=m.reactions, interactions=inter)
        m.organized = True
    else:
        # built directly: same membership rules, spelled out by hand
        m.phases = []
        for dct in data:
            dct = dict(dct)
            name = dct['name']
            cls = getattr(omkm_phase, dct.pop('phase_type'))
            sp = [s for s in m.species if phase_name_of(s.name) == name]
            dct['species'] = sp
            if name in ('terrace', 'step'):
                rx = [r for r in m.reactions if name in rxn_phase_names(r)]
                if rx:
                    dct['reactions'] = rx
                li = [i for i in m.interactions if phase_name_of(i.name_i) == name]
                if li:
                    dct['interactions'] = li
            m.phases.append(cls(**dct))
    if cfg.get('spare'):
        for pn, kw in SPARE.items():
            extra = dict(name=pn)
            if 'site_density' in kw:
                extra.update(site_density=_ph_num(kw['site_density'], pf), phases=['gas', 'bulk'])
            m.phases.append(getattr(omkm_phase, kw['cls'])(**extra))


XHOME = {}          # species name -> phase name of the generated model built last (part "big"; names disjoint from SPEC)


def phase_name_of(species_name):
    if species_name in XHOME:
        return XHOME[species_name]
    if species_name == 'Ar':
        return 'gas'
    return SPEC[species_name][1]


def rxn_phase_names(r):
    out = set()
    for s in list(r.reactants) + list(r.products):
        out.add(phase_name_of(s.name))
    if r.transition_state is not None:
        for s in r.transition_state:
            if s.name in SPEC or s.name in XHOME:
                out.add(phase_name_of(s.name))
    return out


# =============================================================================================
# what the (fresh, untouched) model says - the expectation
# =============================================================================================
def _is_refusal(e, cfg):
    """pmutt.constants has no kilomole: a request in kmol is legitimately refused."""
    msg = str(e)
    return (cfg['units'] == 'kmol' and isinstance(e, (ValueError, KeyError)) and 'kmol' in msg
            and ('not a supported unit' in msg or 'Invalid unit' in msg))


def _species_route(m, T, P):
    """-> barrier(reaction, 'G' | 'H'): the dimensionless barrier max(0, TS - initial, final - initial) put
    together by the harness from each species' own get_GoRT / get_HoRT at the requested T and P (no getter
    of the reaction is involved).  A BEP as transition state: E/RT = (slope * delta_H[kcal/mol] + intercept)
    / RT above the reactants, in H and (no entropy of its own) in G."""
    from pmutt import constants as c
    T, P = float(T), float(P)
    q = {s.name: dict(G=float(s.get_GoRT(T=T, P=P)), H=float(s.get_HoRT(T=T, P=P))) for s in m.species}
    RT_kcal = float(c.R('kcal/mol/K')) * T

    def total(species, stoich, which):
        return sum(float(st) * q[s.name][which] for s, st in zip(species, stoich))

    def parts(r, which):
        """-> (final - initial, TS - initial or None), dimensionless."""
        ini = total(r.reactants, r.reactants_stoich, which)
        fin = total(r.products, r.products_stoich, which)
        ts = None
        if r.transition_state is not None:
            ts = 0.
            for s, st in zip(r.transition_state, r.transition_state_stoich):
                if any(s is b for b in m.beps):
                    if s.descriptor != 'delta_H':
                        raise ValueError('the harness knows the delta_H descriptor only')
                    dH = (total(r.products, r.products_stoich, 'H')
                          - total(r.reactants, r.reactants_stoich, 'H')) * RT_kcal
                    ts += float(st) * (ini + (float(s.slope) * dH + float(s.intercept)) / RT_kcal)
                else:
                    ts += float(st) * q[s.name][which]
            ts -= ini
        return fin - ini, ts

    def barrier(r, which):
        d_fin, d_ts = parts(r, which)
        return max([0., d_fin] + ([] if d_ts is None else [d_ts]))
    barrier.parts = parts
    return barrier


def expected_model(m, req):
    """Plain-data description of the model in the requested units, from public attributes and
    the reaction getters of a copy that no writer has touched."""
    from pmutt import constants as c
    U = UNIT_SYSTEMS[req['units']]
    Q = {'mol': 1.0, 'molec': c.Na, 'kmol': 1.0e-3}[U['quantity']]
    c.convert_unit(initial='mol', final=U['quantity'])       # raises for a unit pMuTT does not know
    L = ref.LENGTH_PER_CM[U['length']]
    M = ref.MASS_PER_G[U['mass']]
    act = U['act_energy']
    T, P = req['T'], req['P']
    ex = dict(units=dict(U))
    # what the phase objects say (mol/cm2, g/cm3)
    sden = {ph.name: float(ph.site_density) for ph in m.phases if getattr(ph, 'site_density', None) is not None}
    dens = {ph.name: float(ph.density) for ph in m.phases if getattr(ph, 'density', None) is not None}
    home = m.home                            # species name -> name of the phase that lists it
    barrier = _species_route(m, T, P)        # Ea / RT from the species' own G/RT, H/RT at the requested T and P
    RT = float(c.R('%s/K' % act)) * float(T)
    # species
    ex['species'] = [species_record(s) for s in m.species]
    # reactions
    rx = []
    for r, tag in zip(m.reactions, m.rxn_tags):
        bep = getattr(r, 'bep', None)
        rec = dict(tag=tag, user_id=r.id,
                   reactants=[(float(st), s.name) for s, st in zip(r.reactants, r.reactants_stoich)],
                   products=[(float(st), s.name) for s, st in zip(r.products, r.products_stoich)],
                   b=float(r.beta), phases=sorted(rxn_phase_names(r)),
                   bep=([k for k, b in enumerate(m.beps) if b is bep][0] if bep is not None else None),
                   direction=r.direction)
        if r.is_adsorption:
            rec['kind'] = 'stick'
            rec['A'] = float(r.sticking_coeff)
            gas = [s.name for s in r.reactants if m.phase_kind[home[s.name]] == 'ideal_gas']
            rec['sticking_species'] = gas[0]
            if r.Ea is not None:
                rec['Ea'] = float(c.convert_unit(float(r.Ea), initial='kcal/mol', final=act))
            else:
                rec['Ea'] = barrier(r, {'get_G_act': 'G', 'get_H_act': 'H'}[req['ads_act']]) * RT
        else:
            rec['kind'] = 'arrh'
            if r.A is not None:
                rec['A'] = float(r.A)
            else:
                sig_eff, n = 0.0, 0.0
                for s, st in zip(r.reactants, r.reactants_stoich):
                    pn = home[s.name]
                    if pn in sden:
                        sig_eff += st * sden[pn] * Q / L ** 2
                        n += st
                rec['A'] = c.kb('J/K') / c.h('J s') / sig_eff ** (n - 1)
            if r.Ea is not None:
                rec['Ea'] = float(c.convert_unit(float(r.Ea), initial='kcal/mol', final=act))
            else:
                rec['Ea'] = barrier(r, 'G') * RT
        rx.append(rec)
    ex['reactions'] = rx
    # interactions
    fin = '%s/%s' % (U['energy'], U['quantity'])
    ex['interactions'] = [dict(pair=[i.name_i, i.name_j], thresholds=[float(v) for v in i.intervals],
                               strengths=[float(v) * c.convert_unit(initial='kcal', final=U['energy']) / Q for v in i.slopes],
                               unit=fin, user_id=i.name, phase=phase_name_of(i.name_i)) for i in m.interactions]
    # beps (those some reaction uses, in order of first use; identified by object, a BEP may be unnamed)
    used = []
    for rec in rx:
        if rec['bep'] is not None and rec['bep'] not in used:
            used.append(rec['bep'])
    ex['beps'] = []
    for bi in used:
        b = m.beps[bi]
        ex['beps'].append(dict(name=b.name, slope=float(b.slope),
                               intercept=float(c.convert_unit(float(b.intercept), initial='kcal/mol', final=act)),
                               direction=b.direction,
                               cleavage=[k for k, rec in enumerate(rx) if rec['bep'] == bi and rec['direction'] == 'cleavage'],
                               synthesis=[k for k, rec in enumerate(rx) if rec['bep'] == bi and rec['direction'] == 'synthesis']))
    # phases
    ph = []
    by_name = {s.name: s for s in m.species}
    for name in m.phase_names:
        sp = [by_name[n] for n in m.members[name]]
        els = set()
        for s in sp:
            els |= set(s.elements)
        rec = dict(name=name, species=[s.name for s in sp], elements=sorted(els), kind=m.phase_kind[name])
        if name in sden:
            rec['site_density'] = sden[name] * Q / L ** 2
            rec['sd_unit'] = '%s/%s^2' % (U['quantity'], U['length'])
            adj = [getattr(p, 'phases', None) for p in m.phases if p.name == name][0]
            if adj is not None:
                rec['adjacent'] = [getattr(p, 'name', p) for p in adj]
            rec['rxn'] = [k for k, r in enumerate(rx) if name in r['phases']]
            rec['li'] = [k for k, i in enumerate(ex['interactions']) if i['phase'] == name]
            rec['beps'] = []                 # positions in ex['beps']
            for k in rec['rxn']:
                if rx[k]['bep'] is not None and used.index(rx[k]['bep']) not in rec['beps']:
                    rec['beps'].append(used.index(rx[k]['bep']))
        else:
            rec['rxn'] = []
            rec['li'] = []
            rec['beps'] = []
        if name in dens:
            rec['density'] = dens[name] * M / L ** 3
        ph.append(rec)
    ex['phases'] = ph
    return ex


# =============================================================================================
# reading the two file formats into the same neutral shape
# =============================================================================================
def _is_num(v):
    return isinstance(v, (int, float)) and not isinstance(v, bool)


def _floats(v):
    if not isinstance(v, (list, tuple)):
        return None
    out = []
    for x in v:
        f = ref.to_float(x) if isinstance(x, str) else (float(x) if isinstance(x, (int, float)) and not isinstance(x, bool) else None)
        if f is None:
            return None
        out.append(f)
    return out


def read_thermo_yaml(text):
    """-> (neutral dict, list of well-formedness problems)."""
    probs = ref.yaml_problems(text)
    try:
        doc = ref.load_yaml(text)
    except Exception as e:                        # yaml.YAMLError
        return None, probs + ['does not load: %s' % type(e).__name__]
    if not isinstance(doc, dict):
        return None, probs + ['top level is not a mapping']
    got = dict(sections=sorted(doc), fmt='yaml')
    got['motz_literals'] = sorted(set(re.findall(r'Motz-Wise:[ \t]*([^\s,}]+)', text)))
    got['units'] = doc.get('units')
    ph = []
    for p in doc.get('phases') or []:
        rec = dict(name=p.get('name'), species=p.get('species'), elements=p.get('elements'),
                   kind={'ideal-gas': 'ideal_gas', 'ref-state-fixed-stoichiometry': 'stoichiometric_solid',
                         'fixed-stoichiometry': 'stoichiometric_solid',
                         'surface-lateral-interaction': 'interacting_interface'}.get(p.get('thermo'), p.get('thermo')))
        q = ref.qty(p.get('site-density')) if 'site-density' in p else None
        rec['site_density'] = q[0] if q else None
        rec['sd_unit'] = q[1] if q else None
        rec['sd_present'] = 'site-density' in p
        rec['switch'] = {k: p.get(k) for k in ('reactions', 'interactions', 'beps')}
        ph.append(rec)
    got['phases'] = ph
    sp = []
    for s in doc.get('species') or []:
        th = s.get('thermo') if isinstance(s.get('thermo'), dict) else {}
        comp = s.get('composition')
        rec = dict(name=s.get('name'),
                   composition=({k: ref.to_float(v) for k, v in comp.items()} if isinstance(comp, dict) else None),
                   sites=(ref.to_float(s['sites']) if 'sites' in s and ref.is_scalar(s['sites'])
                          else ('absent' if 'sites' not in s else 'malformed')),
                   model=th.get('model'), ranges=_floats(th.get('temperature-ranges')),
                   rows=([_floats(r) for r in th.get('data')] if isinstance(th.get('data'), list) else None))
        sp.append(rec)
    got['species'] = sp
    rx = []
    for r in doc.get('reactions') or []:
        rec = dict(eq=ref.parse_equation(r.get('equation')), id=r.get('id'))
        if 'sticking-coefficient' in r and 'rate-constant' not in r:
            rec['kind'], k = 'stick', r['sticking-coefficient']
        elif 'rate-constant' in r and 'sticking-coefficient' not in r:
            rec['kind'], k = 'arrh', r['rate-constant']
        else:
            rec['kind'], k = None, {}
        k = k if isinstance(k, dict) else {}
        rec['A'], rec['b'] = ref.to_float(k.get('A')), ref.to_float(k.get('b'))
        q = ref.qty(k.get('Ea'))
        rec['Ea'], rec['Ea_unit'] = (q if q else (None, None))
        rec['extra_rate_keys'] = sorted(set(k) - {'A', 'b', 'Ea'})
        rec['sticking_species'] = r.get('sticking-species')
        rec['motz'] = ref.to_bool(r.get('Motz-Wise')) if 'Motz-Wise' in r else None
        rx.append(rec)
    got['reactions'] = rx
    li = []
    for i in doc.get('interactions') or []:
        st = i.get('strength')
        qs = [ref.qty(x) for x in st] if isinstance(st, list) else None
        bad = qs is None or any(q is None for q in qs)
        li.append(dict(pair=i.get('species'), thresholds=_floats(i.get('coverage-threshold')),
                       strengths=None if bad else [q[0] for q in qs],
                       unit=None if bad else sorted({q[1] for q in qs}), id=i.get('id')))
    got['interactions'] = li
    bp = []
    for b in doc.get('beps') or []:
        q = ref.qty(b.get('intercept'))
        bp.append(dict(id=b.get('id'), slope=ref.to_float(b.get('slope')), intercept=q[0] if q else None,
                       unit=q[1] if q else None, direction=b.get('direction'),
                       cleavage=ref.expand_ids(b.get('cleavage-reactions', [])),
                       synthesis=ref.expand_ids(b.get('synthesis-reactions', []))))
    got['beps'] = bp
    return got, probs


def read_cti(text):
    """-> (neutral dict, list of well-formedness problems)."""
    try:
        dirs = ref.parse_cti(text)
    except ref.CTIError as e:
        return None, [str(e)]
    probs = []
    got = dict(fmt='cti', units=None, phases=[], species=[], reactions=[], interactions=[], beps=[], motz=[])
    got['order'] = [d[0] for d in dirs]
    for name, args, kw in dirs:
        if name == 'units':
            if args:
                probs.append('units() with positional arguments')
            u = dict(kw)
            if 'act_energy' in u:
                u['activation-energy'] = u.pop('act_energy')
            got['units'] = u
        elif name in ('ideal_gas', 'stoichiometric_solid', 'interacting_interface'):
            rec = dict(kind=name, name=kw.get('name'),
                       species=kw['species'].split() if isinstance(kw.get('species'), str) else None,
                       elements=kw['elements'].split() if isinstance(kw.get('elements'), str) else None,
                       site_density=kw.get('site_density'), density=kw.get('density'),
                       rxn_ids=ref.expand_ids(kw['reactions']) if 'reactions' in kw else None,
                       li_ids=ref.expand_ids(kw['interactions']) if 'interactions' in kw else None,
                       beps=kw['beps'].split() if isinstance(kw.get('beps'), str) else ([] if 'beps' not in kw else None),
                       phases=kw.get('phases'))
            got['phases'].append(rec)
        elif name == 'species':
            blocks = ref.thermo_blocks(kw.get('thermo'))
            rec = dict(name=kw.get('name'),
                       composition=ref.cti_atoms(kw['atoms']) if isinstance(kw.get('atoms'), str) else None,
                       sites=(float(kw['size']) if isinstance(kw.get('size'), (int, float)) and not isinstance(kw.get('size'), bool)
                              else ('absent' if 'size' not in kw else 'malformed')))
            if blocks is None:
                rec.update(model=None, ranges=None, rows=None)
                probs.append('species %s: thermo is not NASA(7)/NASA9(9)/Shomate(7) blocks of (range, coefficients)' % kw.get('name'))
            else:
                kinds = sorted({b[0] for b in blocks})
                rec['model'] = {'NASA': 'NASA7', 'NASA9': 'NASA9', 'Shomate': 'Shomate'}[kinds[0]] if len(kinds) == 1 else None
                rec['ranges'] = [blocks[0][1][0]] + [b[1][1] for b in blocks]
                rec['joins'] = all(blocks[k][1][1] == blocks[k + 1][1][0] for k in range(len(blocks) - 1))
                rec['rows'] = [b[2] for b in blocks]
            got['species'].append(rec)
        elif name == 'surface_reaction':
            rec = dict(eq=ref.parse_equation(args[0]) if args and isinstance(args[0], str) else None, id=kw.get('id'),
                       Ea_unit=None, sticking_species=None, motz=None, extra_rate_keys=[])
            rate = args[1] if len(args) > 1 else None
            if isinstance(rate, dict) and rate.get('_call') == 'stick' and len(rate['args']) == 3:
                rec['kind'] = 'stick'
                vals = _floats(rate['args'])
            elif isinstance(rate, list) and len(rate) == 3:
                rec['kind'] = 'arrh'
                vals = _floats(rate)
            else:
                rec['kind'], vals = None, None
            rec['A'], rec['b'], rec['Ea'] = vals if vals else (None, None, None)
            got['reactions'].append(rec)
        elif name == 'lateral_interaction':
            got['interactions'].append(dict(pair=args[0].split() if args and isinstance(args[0], str) else None,
                                            thresholds=_floats(kw.get('coverage_thresholds')),
                                            strengths=_floats(kw.get('strengths')), unit=None, id=kw.get('id')))
        elif name == 'bep':
            got['beps'].append(dict(id=kw.get('id'), slope=kw.get('slope'), intercept=kw.get('intercept'), unit=None,
                                    direction=kw.get('direction'), cleavage=ref.expand_ids(kw.get('cleavage_reactions')),
                                    synthesis=ref.expand_ids(kw.get('synthesis_reactions'))))
        elif name in ('enable_motz_wise', 'disable_motz_wise'):
            got['motz'].append(name == 'enable_motz_wise')
    return got, probs


# =============================================================================================
# comparison of a file (neutral shape) with the expectation
# =============================================================================================
C_WF = 'file is well formed (YAML loads as plain YAML / CTI is a sequence of CTI directives)'
C_SECT = 'file holds exactly the supplied sections'
C_UNITS = 'units section as requested'
C_PH_LIST = 'each phase once, listing exactly its species and elements'
C_PH_SDEN = 'site density / density of the phase in the requested units'
C_PH_MEMB = 'phase reaction / interaction / BEP membership'
C_SP_ID = 'each species once with name, composition, site occupancy and model'
C_SP_NUM = 'temperature ranges and polynomial coefficients of the species'
C_RX_EQ = 'each reaction once with its equation and rate form'
C_RX_ID = 'reaction ids unique, given ids kept'
C_RX_NUM = 'rate parameters equal the model values in the requested units'
C_RX_STICK = 'sticking species and Motz-Wise flag'
C_LI = 'each lateral interaction once with its members, id and thresholds'
C_LI_NUM = 'interaction strengths in the requested units'
C_BEP = 'each BEP once with id, direction and member reactions'
C_BEP_NUM = 'BEP slope and intercept in the requested units'


def compare(ex, got, req, ctx, case, part, supplied, empty_ok=(), sig_extra=None):
    """supplied: set of {'phases','species','reactions','interactions'} given to the writer;
    empty_ok: those of them that were supplied as an explicit empty list;
    sig_extra: further keys for every signature (what kind of history led to this write)."""
    yamlf = got['fmt'] == 'yaml'
    tol_coef = 1e-13 if yamlf else 5.1e-9
    tol_rate = 1e-9 if yamlf else 5.1e-6
    tol_repr = 1e-9
    U = ex['units']
    S = lambda **kw: dict(part=part, **dict(sig_extra or {}, **kw))          # noqa: E731
    ok = True

    # sections -------------------------------------------------------------------------------
    if yamlf:
        want = ['units'] + [s for s in ('phases', 'species', 'reactions', 'interactions') if s in supplied]
        if 'reactions' in supplied and ex['beps']:
            want.append('beps')
        have = list(got['sections'])
        for sec in empty_ok:                  # an empty list was supplied: an empty section or no section
            if sec in want and sec not in have:
                want.remove(sec)
        ok &= ctx.equal(C_SECT, sorted(have), sorted(want), S(item='sections'), case)
    else:
        cnt = {k: len(got[k]) for k in ('phases', 'species', 'reactions', 'interactions', 'beps')}
        wantc = dict(phases=len(ex['phases']) if 'phases' in supplied else 0,
                     species=len(ex['species']) if 'species' in supplied else 0,
                     reactions=len(ex['reactions']) if 'reactions' in supplied else 0,
                     interactions=len(ex['interactions']) if 'interactions' in supplied else 0,
                     beps=len(ex['beps']) if 'reactions' in supplied else 0)
        ok &= ctx.equal(C_SECT, cnt, wantc, S(item='sections'), case)
    # units ----------------------------------------------------------------------------------
    wantu = {('activation-energy' if k == 'act_energy' else k): v for k, v in U.items()}
    ok &= ctx.equal(C_UNITS, got['units'], wantu, S(item='units'), case)

    ids = [r['id'] for r in got['reactions']]
    li_ids = [i['id'] for i in got['interactions']]

    # species --------------------------------------------------------------------------------
    if 'species' in supplied and ctx.equal(C_SP_ID, [s['name'] for s in got['species']],
                                           [s['name'] for s in ex['species']], S(item='species', field='names'), case):
        for g, e in zip(got['species'], ex['species']):
            sg = S(item='species', cls=e['cls'])
            ctx.tag('cls:' + e['cls'])
            sites = 'absent' if e['sites'] is None else float(e['sites'])
            ok &= ctx.equal(C_SP_ID, [g['composition'], g['sites'], g['model']],
                            [e['composition'], sites, e['model']], dict(sg, field='composition/sites/model'), case)
            if g['ranges'] is None or g['rows'] is None or any(r is None for r in g['rows']):
                ok &= ctx.fail(C_SP_NUM, dict(sg, field='shape'), case, 'malformed thermo block', 'ranges + rows')
                continue
            if not yamlf:
                ok &= ctx.true(C_SP_NUM, g.get('joins', True), dict(sg, field='ranges join'), case, g['ranges'], 'contiguous')
            ok &= ctx.close(C_SP_NUM, g['ranges'], e['ranges'], dict(sg, field='ranges'), case, rtol=tol_repr)
            ok &= ctx.close(C_SP_NUM, [v for r in g['rows'] for v in r], [v for r in e['rows'] for v in r],
                            dict(sg, field='coefficients'), case, rtol=tol_coef, atol=1e-300)
            ctx.evals(2)
    # reactions ------------------------------------------------------------------------------
    rx_ok = False
    if 'reactions' in supplied and ctx.equal(C_RX_EQ, len(got['reactions']), len(ex['reactions']),
                                             S(item='reactions', field='count'), case):
        rx_ok = True
        ok &= ctx.true(C_RX_ID, all(isinstance(i, str) and i for i in ids) and len(set(ids)) == len(ids),
                       S(item='reactions', field='unique'), case, ids, 'distinct strings')
        for k, (g, e) in enumerate(zip(got['reactions'], ex['reactions'])):
            sg = S(item='reaction', rxn=e['tag'])
            ctx.tag('rxn:' + e['tag'])
            eq = None
            if g['eq'] is not None:
                eq = [[(round(a, 2), n) for a, n in side] for side in g['eq']]
            ok &= ctx.equal(C_RX_EQ, [eq, g['kind']],
                            [[[(round(a, 2), n) for a, n in e['reactants']], [(round(a, 2), n) for a, n in e['products']]],
                             e['kind']], dict(sg, field='equation'), case)
            if e['user_id'] is not None:
                ok &= ctx.equal(C_RX_ID, g['id'], e['user_id'], dict(sg, field='given id'), case)
            if g['A'] is None or g['b'] is None or g['Ea'] is None:
                ok &= ctx.fail(C_RX_NUM, dict(sg, field='shape'), case, [g['A'], g['b'], g['Ea']], 'three numbers')
                continue
            ok &= ctx.close(C_RX_NUM, g['A'], e['A'], dict(sg, field='A'), case, rtol=tol_rate)
            ok &= ctx.close(C_RX_NUM, g['b'], e['b'], dict(sg, field='b'), case, rtol=tol_repr)
            ok &= ctx.close(C_RX_NUM, g['Ea'], e['Ea'], dict(sg, field='Ea'), case, rtol=tol_rate,
                            atol=1e-9)
            ctx.evals(3)
            if yamlf:
                ok &= ctx.equal(C_RX_NUM, [g['Ea_unit'], g['extra_rate_keys']], [U['act_energy'], []],
                                dict(sg, field='Ea unit'), case)
                if e['kind'] == 'stick':
                    ok &= ctx.equal(C_RX_STICK, [g['sticking_species'], g['motz']],
                                    [e['sticking_species'], bool(req['motz'])], dict(sg, field='sticking'), case)
                else:
                    ok &= ctx.equal(C_RX_STICK, [g['sticking_species'], g['motz']], [None, None],
                                    dict(sg, field='not sticking'), case)
        if not yamlf:
            ok &= ctx.equal(C_RX_STICK, got['motz'], [bool(req['motz'])], S(item='reactions', field='motz directive'), case)
        else:
            # the YAML 1.2 core schema booleans (a quoted 'False' would be a string)
            ok &= ctx.true(C_RX_STICK, all(l in ('true', 'True', 'TRUE', 'false', 'False', 'FALSE')
                                           for l in got['motz_literals']),
                           S(item='reactions', field='Motz-Wise is a YAML boolean'), case, got['motz_literals'],
                           'true / false')
    # interactions ---------------------------------------------------------------------------
    li_ok = False
    if 'interactions' in supplied and ctx.equal(C_LI, len(got['interactions']), len(ex['interactions']),
                                                S(item='interactions', field='count'), case):
        li_ok = True
        ok &= ctx.true(C_LI, all(isinstance(i, str) and i for i in li_ids) and len(set(li_ids)) == len(li_ids),
                       S(item='interactions', field='unique'), case, li_ids, 'distinct strings')
        for g, e in zip(got['interactions'], ex['interactions']):
            sg = S(item='interaction')
            ok &= ctx.equal(C_LI, [g['pair'], g['thresholds']], [e['pair'], e['thresholds']], dict(sg, field='members'), case)
            if e['user_id'] is not None:
                ok &= ctx.equal(C_LI, g['id'], e['user_id'], dict(sg, field='given id'), case)
            if g['strengths'] is None:
                ok &= ctx.fail(C_LI_NUM, dict(sg, field='shape'), case, 'malformed strengths', 'numbers (with unit)')
                continue
            ok &= ctx.close(C_LI_NUM, g['strengths'], e['strengths'], dict(sg, field='strength'), case, rtol=tol_repr)
            ctx.evals()
            if yamlf:
                ok &= ctx.equal(C_LI_NUM, g['unit'], [e['unit']], dict(sg, field='unit'), case)
    # beps -----------------------------------------------------------------------------------
    bep_ids = [b['id'] for b in got['beps']]
    bp_ok = False
    if rx_ok and ctx.equal(C_BEP, len(got['beps']), len(ex['beps']), S(item='beps', field='count'), case):
        bp_ok = True
        ok &= ctx.true(C_BEP, all(isinstance(i, str) and i not in ('', 'None', 'null', '~') for i in bep_ids)
                       and len(set(bep_ids)) == len(bep_ids), S(item='beps', field='unique'), case, bep_ids,
                       'distinct strings')
        ok &= ctx.equal(C_BEP, [g['id'] for g, e in zip(got['beps'], ex['beps']) if e['name'] is not None],
                        [e['name'] for e in ex['beps'] if e['name'] is not None], S(item='beps', field='names'), case)
        for g, e in zip(got['beps'], ex['beps']):
            sg = S(item='bep')
            ok &= ctx.equal(C_BEP, [g['direction'], sorted(g['cleavage'] or ['?']), sorted(g['synthesis'] or ['?'])]
                            if (g['cleavage'] is not None and g['synthesis'] is not None) else 'malformed',
                            [e['direction'], sorted(ids[k] for k in e['cleavage']) or ['?'],
                             sorted(ids[k] for k in e['synthesis']) or ['?']], dict(sg, field='members'), case)
            if not _is_num(g['slope']) or not _is_num(g['intercept']):
                ok &= ctx.fail(C_BEP_NUM, dict(sg, field='shape'), case, [g['slope'], g['intercept']], 'numbers')
                continue
            ok &= ctx.close(C_BEP_NUM, [g['slope'], g['intercept']], [e['slope'], e['intercept']],
                            dict(sg, field='slope/intercept'), case, rtol=tol_repr, atol=1e-300)
            ctx.evals()
            if yamlf:
                ok &= ctx.equal(C_BEP_NUM, g['unit'], U['act_energy'], dict(sg, field='unit'), case)
    # phases ---------------------------------------------------------------------------------
    if 'phases' in supplied and ctx.equal(C_PH_LIST, [p['name'] for p in got['phases']],
                                          [p['name'] for p in ex['phases']], S(item='phases', field='names'), case):
        for g, e in zip(got['phases'], ex['phases']):
            sg = S(item='phase', kind=e['kind'])
            ok &= ctx.equal(C_PH_LIST, [g['kind'], g['species'], sorted(g['elements'] or ['?'])],
                            [e['kind'], e['species'], e['elements']], dict(sg, field='listing'), case)
            if 'site_density' in e:
                if not isinstance(g['site_density'], (int, float)):
                    ok &= ctx.fail(C_PH_SDEN, dict(sg, field='shape'), case, g['site_density'], 'number')
                else:
                    ok &= ctx.close(C_PH_SDEN, g['site_density'], e['site_density'], dict(sg, field='site density'),
                                    case, rtol=tol_repr)
                    ctx.evals()
                if yamlf:
                    ok &= ctx.equal(C_PH_SDEN, g['sd_unit'], e['sd_unit'], dict(sg, field='unit'), case)
            elif yamlf:
                ok &= ctx.true(C_PH_SDEN, not g['sd_present'], dict(sg, field='no site density'), case)
            if 'density' in e and not yamlf:
                if not isinstance(g['density'], (int, float)):
                    ok &= ctx.fail(C_PH_SDEN, dict(sg, field='shape'), case, g['density'], 'number')
                else:
                    ok &= ctx.close(C_PH_SDEN, g['density'], e['density'], dict(sg, field='density'), case, rtol=tol_repr)
            # membership
            if yamlf:
                sw = g['switch']
                obs = [sw.get('reactions') not in (None, 'none'), sw.get('interactions') not in (None, 'none'),
                       sw.get('beps') not in (None, 'none')]
                exp = [bool(e['rxn']) and rx_ok, bool(e['li']) and li_ok, bool(e['beps']) and rx_ok]
                ok &= ctx.equal(C_PH_MEMB, obs, exp, dict(sg, field='switches'), case)
            else:
                obs = [sorted(g['rxn_ids'] or []) if g['rxn_ids'] is not None or not e['rxn'] else 'malformed',
                       sorted(g['li_ids'] or []) if g['li_ids'] is not None or not e['li'] else 'malformed',
                       sorted(g['beps'] or []) if g['beps'] is not None else 'malformed']
                exp = [sorted(ids[k] for k in e['rxn']) if rx_ok else [],
                       sorted(li_ids[k] for k in e['li']) if li_ok else [],
                       sorted(bep_ids[k] for k in e['beps']) if bp_ok else []]
                if rx_ok and not bp_ok:       # the BEP section itself is already reported
                    obs[2] = exp[2] = 'BEP section differs'
                ok &= ctx.equal(C_PH_MEMB, obs, exp, dict(sg, field='member ids'), case)
                if 'adjacent' in e:
                    ok &= ctx.equal(C_PH_MEMB, g['phases'].split() if isinstance(g['phases'], str) else 'malformed',
                                    e['adjacent'], dict(sg, field='adjacent phases'), case)
    return bool(ok)


# =============================================================================================
# B2 - thermo YAML / CTI of a freshly built model versus an untouched copy
# =============================================================================================
def _req(cfg):
    f = {'float': float, 'int': lambda v: int(round(v)), 'np': np.float64}[cfg.get('TP_form', 'float')]
    units = 'default' if cfg.get('units_arg') == 'none' else cfg['units']      # units=None means Units()
    req = dict(units=units, T=f(cfg['T']), P=f(cfg['P']), motz=cfg['motz'], ads_act=cfg['ads_act'])
    om = cfg.get('omit', 'none')
    req['omit'] = {'none': [], 'motz': ['use_motz_wise'], 'TP': ['T', 'P'], 'ads': ['ads_act_method'],
                   'all': ['use_motz_wise', 'T', 'P', 'ads_act_method', 'units']}[om]
    # what the documentation says an omitted argument stands for
    if 'use_motz_wise' in req['omit']:
        req['motz'] = False
    if 'T' in req['omit']:
        req['T'], req['P'] = 300., 1.
    if 'ads_act_method' in req['omit']:
        req['ads_act'] = 'get_H_act'
    if 'units' in req['omit']:
        req['units'] = 'default'
    return req


def _flipped(req):
    """The opposite request: other units, temperature, pressure, Motz-Wise switch and adsorption method."""
    return dict(units='si' if req['units'] != 'si' else 'ex', T=type(req['T'])(300 if req['T'] > 500 else 700),
                P=type(req['P'])(10 if req['P'] == 1 else 1), motz=not req['motz'],
                ads_act='get_G_act' if req['ads_act'] == 'get_H_act' else 'get_H_act', omit=[])


def _supplied(m):
    sec = m.cfg.get('sections', 'all')
    out = {'phases', 'species', 'reactions'} | ({'interactions'} if m.interactions else set())
    if m.cfg.get('li_arg') == 'empty':
        out.add('interactions')
    if sec == 'no_phases':
        out.discard('phases')
    if sec == 'no_species':
        out.discard('species')
    return out


def _empty_ok(m):
    return ('interactions',) if (m.cfg.get('li_arg') == 'empty' and not m.interactions) else ()


def _writer_kwargs(m, req):
    """The keyword arguments handed to write_cti / write_thermo_yaml for this model and request."""
    sup = _supplied(m)
    ua = m.cfg.get('units_arg', 'obj')
    if ua == 'obj':                           # a request in other units than the model's own: a Units object of its own
        units = m.units if req['units'] == _req(m.cfg)['units'] else make_units(req['units'])
    else:
        units = dict(UNIT_SYSTEMS[req['units']]) if ua == 'dict' else None
    if m.interactions:
        li = m.interactions
    else:
        li = [] if m.cfg.get('li_arg') == 'empty' else None
    written = [ph for ph in m.phases if ph.name in m.phase_names]
    kw = dict(phases=written if 'phases' in sup else None, species=m.species if 'species' in sup else None,
              reactions=m.reactions, lateral_interactions=li, units=units,
              T=req['T'], P=req['P'], use_motz_wise=req['motz'], ads_act_method=req['ads_act'])
    for k in req.get('omit', ()):
        del kw[k]
    return kw


def write_model(m, writer, req, out, ctx, case, part, oracle=True):
    """Run the real writer.  Returns the text (from the returned string or from the file).
    oracle=False: an earlier write of a history whose text is not looked at (no ctml_writer run)."""
    from pmutt.io.omkm import write_cti, write_thermo_yaml
    from pmutt.io.ctml_writer import convert
    sup = _supplied(m)
    kw = _writer_kwargs(m, req)
    units_before = copy.deepcopy(kw['units']) if isinstance(kw.get('units'), dict) else None
    tmp = tempfile.mkdtemp(prefix='c07_')
    try:
        if writer == 'yaml':
            if out == 'file':
                path = os.path.join(tmp, 'thermo.yaml')
                ret = write_thermo_yaml(filename=path, **kw)
                with open(path, newline='') as f:
                    text = f.read()
                ctx.true('with a filename the text goes to the file and nothing is returned', ret is None,
                         dict(part=part, item='file'), case)
            else:
                text = write_thermo_yaml(**kw)
            ctx.trace()
            return text
        # CTI: the bundled ctml_writer is the second well-formedness oracle
        accepted = True
        complete = oracle and {'phases', 'species', 'reactions'} <= sup     # ctml_writer needs the whole mechanism
        if out == 'file':
            path = os.path.join(tmp, 'thermo.cti')
            try:
                with _quiet():
                    ret = write_cti(filename=path, write_xml=complete, **kw)
            except SystemExit:
                accepted, ret = False, None
            with open(path, newline='') as f:
                text = f.read()
            ctx.true('with a filename the text goes to the file and nothing is returned', ret is None,
                     dict(part=part, item='file'), case)
        else:
            text = write_cti(**kw)
            if complete:
                try:
                    with _quiet():
                        convert(text=text, outName=os.path.join(tmp, 'thermo.xml'))
                except SystemExit:
                    accepted = False
                except Exception as e:            # ctml_writer's own CTI_Error: not accepted; the comparison goes on
                    if type(e).__name__ != 'CTI_Error':
                        raise
                    accepted = False
        ctx.trace()
        if complete:
            ctx.true('the bundled ctml_writer converts the CTI file', accepted, dict(part=part, item='ctml_writer'), case,
                     'SystemExit', 'converted')
            if accepted:
                ctx.tag('cti:ctml_writer accepted')
        return text
    finally:
        shutil.rmtree(tmp, ignore_errors=True)
        if units_before is not None:
            ctx.true(C_ALONE, kw['units'] == units_before, dict(part=part, item='units dict'), case,
                     kw['units'], units_before)


def _cfg_of(delta, forms=False, big=False):
    cfg = dict(DEF_CFG)
    if forms:
        cfg.update(FORM_BASE)
    if big:
        cfg.update(BIG_BASE)
    cfg.update({k: v for k, v in delta.items() if k != 'cls'})
    if 'cls' in delta:                        # one class for every species of the model
        cfg['gas'] = cfg['surf'] = delta['cls']
    if cfg.get('li_arg') == 'empty':          # lateral_interactions=[] : a model without interactions
        cfg['li'] = 0
    return cfg


C_ALONE = "writing leaves the caller's objects as they were (apart from the ids it assigns)"
C_H_SAME = 'a model written twice gives the same file'


def _identities(m):
    """Which objects sit where in the caller's containers (writing must not reorder / replace / drop them)."""
    out = dict(species=[id(s) for s in m.species], reactions=[id(r) for r in m.reactions],
               interactions=[id(i) for i in m.interactions], phases=[id(p) for p in m.phases],
               phase_species=[[id(s) for s in p.species] for p in m.phases],
               nasas=[[id(n) for n in s.nasas] for s in m.species if hasattr(s, 'nasas')],
               bep_members=[[[id(r) for r in b.cleavage_reactions], [id(r) for r in b.synthesis_reactions]]
                            for b in m.beps])
    return out


def _raw(v):
    """A number as the object holds it: (type name, value) - a writer has no business converting it in place."""
    if v is None or isinstance(v, (str, bool)):
        return v
    if isinstance(v, np.ndarray):
        return ['ndarray', str(v.dtype), [float(x) for x in v.ravel()]]
    if isinstance(v, (list, tuple)):
        return [type(v).__name__, [_raw(x) for x in v]]
    if isinstance(v, dict):
        return {k: _raw(x) for k, x in v.items()}
    return [type(v).__name__, float(v)]


def raw_state(m):
    """What the caller's objects hold, read attribute by attribute (no getter of the model is called)."""
    st = dict(units=dict(m.units.__dict__))
    sp = []
    for s in m.species:
        rec = dict(cls=type(s).__name__, name=s.name, elements=_raw(s.elements), n_sites=_raw(s.n_sites),
                   phase=getattr(s.phase, 'name', s.phase))
        if hasattr(s, 'nasas'):
            rec['nasas'] = [[_raw(n.T_low), _raw(n.T_high), _raw(n.a)] for n in s.nasas]
        elif hasattr(s, 'a_low'):
            rec['T'] = [_raw(s.T_low), _raw(s.T_mid), _raw(s.T_high)]
            rec['a'] = [_raw(s.a_low), _raw(s.a_high)]
        else:
            rec['T'] = [_raw(s.T_low), _raw(s.T_high)]
            rec['a'] = _raw(s.a)
        sp.append(rec)
    st['species'] = sp
    pos = {id(r): k for k, r in enumerate(m.reactions)}
    bpos = {id(b): 'BEP #%d' % k for k, b in enumerate(m.beps)}      # a BEP may get its name from the writer
    st['reactions'] = [dict(user_id=r.id, A=_raw(r.A), beta=_raw(r.beta), Ea=_raw(r.Ea), stick=_raw(r.sticking_coeff),
                            ads=r.is_adsorption, direction=r.direction,
                            reactants=[[s.name, _raw(n)] for s, n in zip(r.reactants, r.reactants_stoich)],
                            products=[[s.name, _raw(n)] for s, n in zip(r.products, r.products_stoich)],
                            ts=[bpos.get(id(s), s.name) for s in (r.transition_state or [])]) for r in m.reactions]
    st['interactions'] = [dict(user_id=i.name, pair=[i.name_i, i.name_j], intervals=_raw(i.intervals),
                               slopes=_raw(i.slopes)) for i in m.interactions]
    st['beps'] = [dict(name=b.name, slope=_raw(b.slope), intercept=_raw(b.intercept), direction=b.direction,
                       cleavage=[pos.get(id(r)) for r in b.cleavage_reactions],
                       synthesis=[pos.get(id(r)) for r in b.synthesis_reactions]) for b in m.beps]
    st['phases'] = [dict(cls=type(p).__name__, name=p.name, species=[s.name for s in p.species],
                         site_density=_raw(getattr(p, 'site_density', None)), density=_raw(getattr(p, 'density', None)),
                         initial_state=_raw(p.initial_state),
                         reactions=[pos.get(id(r)) for r in (p.reactions or [])],
                         interactions=[i.name_i + '/' + i.name_j for i in (getattr(p, 'interactions', None) or [])])
                    for p in m.phases]
    return st


def _forget_assigned(after, before):
    """ids / names the writer assigned to objects that had none are not a change of the model."""
    for key, field in (('reactions', 'user_id'), ('interactions', 'user_id'), ('beps', 'name')):
        for a, b in zip(after[key], before[key]):
            if b[field] is None and isinstance(a[field], str):
                a[field] = None
    return after


def _first_difference(a, b, path=''):
    if type(a) is not type(b) and not (_is_num(a) and _is_num(b)):
        return '%s: %r / %r' % (path, a, b)
    if isinstance(a, dict):
        for k in sorted(set(a) | set(b), key=str):
            if k not in a or k not in b:
                return '%s.%s present on one side only' % (path, k)
            d = _first_difference(a[k], b[k], '%s.%s' % (path, k))
            if d:
                return d
        return None
    if isinstance(a, (list, tuple)):
        if len(a) != len(b):
            return '%s: length %d / %d' % (path, len(a), len(b))
        for k, (x, y) in enumerate(zip(a, b)):
            d = _first_difference(x, y, '%s[%d]' % (path, k))
            if d:
                return d
        return None
    return None if a == b else '%s: %r / %r' % (path, a, b)


def check_left_alone(m, before, ident, ctx, case, part):
    """After the write(s): the objects hold what they held (compared with the state read before), the
    containers hold the same objects in the same order."""
    diff = _first_difference(_forget_assigned(raw_state(m), before), before)
    ctx.evals()
    ok = ctx.true(C_ALONE, diff is None, dict(part=part, item='model'), case, diff, 'unchanged')
    now = _identities(m)
    bad = sorted(k for k in ident if ident[k] != now[k])
    ok &= ctx.true(C_ALONE, not bad, dict(part=part, item='containers'), case, bad, [])
    return bool(ok)


def _prior_other(cfg, ctx):
    """An unrelated model (other classes, units, T) built and written by both writers in this process first:
    nothing of it may show up in what follows (module state, caches, default arguments)."""
    from pmutt.io.omkm import write_cti, write_thermo_yaml
    other = dict(FORM_BASE, gas='shomate', surf='nasa', units='si' if cfg['units'] != 'si' else 'ex', T=345., P=3.,
                 ids='user', li_names='user', li=3, Ea='np', A='float', motz=not cfg['motz'], bep=1)
    other = dict(DEF_CFG, **other)
    mo = build_model(other)
    kw = _writer_kwargs(mo, _req(other))
    write_thermo_yaml(**kw)
    write_cti(**kw)
    ctx.trace(2)


def _thermo_eval(case, ctx):
    forms = case['kind'] == 'forms'
    big = case['kind'] == 'big'
    cfg = _cfg_of(case['delta'], forms=forms, big=big)
    writer = case['writer']
    part = ('forms_yaml' if writer == 'yaml' else 'forms_cti') if forms else \
        ('thermo_yaml' if writer == 'yaml' else 'cti')
    if big:
        part = 'big_yaml' if writer == 'yaml' else 'big_cti'
    req = _req(cfg)
    _reset_defaults()
    try:
        try:
            if cfg.get('prior') == 'other':
                ctx.tag('prior:other model written first')
                _prior_other(cfg, ctx)
            m2 = build_model(cfg)
            ex = expected_model(m2, req)
            m = build_model(cfg)
            ident, before = _identities(m), raw_state(m)
            first = None
            if cfg.get('prior') == 'flipped':
                # the same objects were already written, by both writers, for the opposite request
                ctx.tag('prior:same objects written for the opposite request')
                for w in ('yaml', 'cti'):
                    write_model(m, w, _flipped(req), 'str', ctx, case, part, oracle=False)
            if cfg.get('prior') == 'same':
                # the same objects were already written, by the other writer and by this one
                ctx.tag('prior:same model written before')
                write_model(m, 'cti' if writer == 'yaml' else 'yaml', req, 'str', ctx, case, part)
                first = write_model(m, writer, req, 'str', ctx, case, part)
            text = write_model(m, writer, req, cfg['out'], ctx, case, part)
        except (ValueError, KeyError) as e:
            if _is_refusal(e, cfg):
                ctx.refuse('unit not in pmutt.constants tables (%s)' % cfg['units'])
                if cfg['units'] == 'kmol':
                    ctx.tag('units:kmol-refused')
                return
            raise
        for key in ('ids', 'ads', 'build'):
            ctx.tag('%s:%s' % (key, cfg[key]))
        ctx.tag('out:' + cfg['out'])
        if cfg['Ea'] == 'given':
            ctx.tag('Ea:given')
        if cfg['A'] == 'given':
            ctx.tag('A:given')
        if cfg['P'] != 1.:
            ctx.tag('P!=1')
        if cfg['P'] < 1.:
            ctx.tag('P<1')
        if cfg['ads_act'] == 'get_G_act':
            ctx.tag('ads_act:get_G_act')
        if cfg['motz']:
            ctx.tag('motz:on')
        for key in FORM_TAGGED:
            if cfg.get(key, DEF_CFG[key]) != DEF_CFG[key]:
                ctx.tag('%s:%s' % (key, cfg[key]))
        got, probs = (read_thermo_yaml if writer == 'yaml' else read_cti)(text)
        ctx.true(C_WF, got is not None and not probs, dict(part=part, item='file'), case, probs, [])
        if first is not None:
            ctx.true(C_H_SAME, _strip_stamp(first) == _strip_stamp(text), dict(part=part, item='file'), case,
                     _first_diff(_strip_stamp(first), _strip_stamp(text)), 'identical text')
        if big:
            ctx.tag('names:' + cfg['names'])
            if cfg['ids'] == 'user':
                ctx.tag('big:ids user')
            if cfg['extra']:
                ctx.tag('big:extra species')
            if writer == 'cti':
                for f_ in sorted(_wrapped_fields(text) & {'species', 'elements', 'beps', 'phases'}):
                    ctx.tag('wrapped:' + f_)
            _ladder_tags(m2, req, ctx)
        if got is None:
            return
        compare(ex, got, req, ctx, case, part, _supplied(m), _empty_ok(m))
        check_left_alone(m, before, ident, ctx, case, part)
    finally:
        _reset_defaults()


def _deviations(coords, order, level):
    """All deltas that depart from the default in exactly `level` coordinates."""
    out = []
    for combo in itertools.combinations(order, level):
        for vals in itertools.product(*[coords[k][1:] for k in combo]):
            out.append(dict(zip(combo, vals)))
    return out


def _thermo_deltas(tier):
    levels = (0, 1, 2) if tier == 'quick' else (0, 1, 2, 3)
    out = []
    for lv in levels:
        out += _deviations(COORDS, COORD_ORDER, lv)
    return out


def _run_thermo(shard, ctx):
    for delta in shard['deltas']:
        for writer in ('yaml', 'cti'):
            case = dict(kind='thermo', writer=writer, delta=delta)
            ctx.state(('thermo', writer, sorted(delta.items())))
            ctx.trans(len(delta))
            if delta:
                ctx.nontrivial(('thermo', writer, sorted(delta.items())))
            ctx.run_case(_thermo_eval, case, dict(part='thermo_yaml' if writer == 'yaml' else 'cti', item='write'))
            if len(delta) == 2:
                ctx.sample(case, limit=1)


# =============================================================================================
# C - forms: how the numbers / lists / options are handed over (same evaluation as B2)
# =============================================================================================
# base of the product: a one-interface model built directly, every species NASA-9 (so that the interval
# order is a single deviation), two BEPs, three interactions
FORM_BASE = dict(build='direct', sites=1, gas='nasa9', surf='nasa9', bep=2, li=3)
FORM_COORDS = dict(cls=['nasa9', 'nasa', 'shomate'], sp_form=SP_FORMS, el_form=EL_FORMS, n9=list(N9_ORDERS),
                   Ea=EA_KINDS, A=A_KINDS, stick=STICK_KINDS, beta=BETA_KINDS,
                   li_form=LI_FORMS, bep_form=BEP_FORMS, bep_names=BEP_NAMES, ph_form=PH_FORMS,
                   li_arg=['none', 'empty'],
                   TP_form=['float', 'int', 'np'], units_arg=['obj', 'dict', 'none'],
                   prior=['none', 'other', 'same', 'flipped'],
                   units=['ex', 'si', 'default'], ids=['auto', 'desc'],
                   # Motz-Wise: requested for the file / carried by the adsorption reactions themselves
                   motz=[False, True], rmotz=['off', 'on', 'alt'],
                   # request arguments left out of the call (documented defaults: 300 K, 1 bar, Motz-Wise off,
                   # get_H_act, pMuTT's default units) instead of given
                   omit=['none', 'motz', 'TP', 'ads', 'all'])
FORM_FAMILY = dict(cls='S', sp_form='S', el_form='S', n9='S', Ea='R', A='R', stick='R', beta='R', li_form='L', bep_form='L',
                   bep_names='L', ph_form='L', li_arg='L', TP_form='W', units_arg='W', prior='W', units='W', ids='W',
                   motz='W', rmotz='W', omit='W')
FORM_CROSS = ('TP_form', 'units', 'units_arg')     # request coordinates paired with every coordinate in the quick tier
FORM_ORDER = sorted(FORM_COORDS)
FORM_TAGGED = ['sp_form', 'el_form', 'n9', 'Ea', 'A', 'stick', 'beta', 'li_form', 'bep_form', 'bep_names', 'ph_form', 'li_arg',
               'TP_form', 'units_arg', 'rmotz', 'omit']
PLANNED_TAGS += ['%s:%s' % (k_, v_) for k_ in FORM_TAGGED for v_ in FORM_COORDS[k_] if v_ != DEF_CFG[k_]]
PLANNED_TAGS += ['prior:other model written first', 'prior:same model written before', 'ids:desc',
                 'prior:same objects written for the opposite request', 'P<1']


def _form_deltas(tier):
    """Base + every single deviation + pairs.  quick: pairs inside one family (S species, R rate inputs,
    L interactions / BEPs / phases, W request / history) and every coordinate with the request coordinates
    units, T/P typing and units argument; thorough: all pairs, and all triples inside R and inside S + units."""
    out = [{}]
    for k in FORM_ORDER:
        out += [{k: v} for v in FORM_COORDS[k][1:]]
    for a, b in itertools.combinations(FORM_ORDER, 2):
        fa, fb = FORM_FAMILY[a], FORM_FAMILY[b]
        if tier == 'quick' and not (fa == fb or a in FORM_CROSS or b in FORM_CROSS):
            continue
        for va in FORM_COORDS[a][1:]:
            for vb in FORM_COORDS[b][1:]:
                out.append({a: va, b: vb})
    if tier != 'quick':
        for sub in (['Ea', 'A', 'stick', 'beta'], ['cls', 'sp_form', 'n9', 'units'], ['cls', 'sp_form', 'el_form']):
            out += _deviations({k: FORM_COORDS[k] for k in sub}, sorted(sub), 3)
    # the interval order only exists for NASA-9 species
    return [d for d in out if not ('n9' in d and d.get('cls', 'nasa9') != 'nasa9')]


def _run_forms(shard, ctx):
    for delta in shard['deltas']:
        for writer in ('yaml', 'cti'):
            case = dict(kind='forms', writer=writer, delta=delta)
            ctx.state(('forms', writer, sorted(delta.items(), key=str)))
            ctx.trans(len(delta))
            if delta:
                ctx.nontrivial(('forms', writer, sorted(delta.items(), key=str)))
            ctx.run_case(_thermo_eval, case, dict(part='forms_yaml' if writer == 'yaml' else 'forms_cti', item='write'))
            if len(delta) == 2:
                ctx.sample(case, limit=1)


# =============================================================================================
# A1 - write histories
# =============================================================================================
EXTRA_RXNS = [('plain', 'N(T) + H(T) + RU(B) = NH(T) + RU(T)', {}),
              ('plain', 'NH2(T) + H(T) + RU(B) = NH3(T) + RU(T)', {}),
              ('ts', 'N(T) + H(T) + RU(B) = TS1(T) = NH(T) + RU(T)', {}),
              ('plain', 'N2 + 2RU(T) = 2N(T) + 2RU(B)', {})]
EXTRA_LIS = [dict(name_i='NH2(T)', name_j='N(T)', intervals=[0., 0.5], slopes=[-20.7, -6.5]),
             dict(name_i='NH(T)', name_j='H(T)', intervals=[0.], slopes=[-9.25]),
             dict(name_i='H(T)', name_j='H(T)', intervals=[0., 0.125], slopes=[-3.0, -1.5]),
             dict(name_i='NH3(T)', name_j='N(T)', intervals=[0.], slopes=[-2.75])]
HIST_OPS = ['cti', 'yaml', 'add_rxn', 'add_li']
HIST_INITS = [dict(ids='auto', li_names='auto'), dict(ids='mix', li_names='mix'), dict(ids='user', li_names='user')]
# second alphabet: a reaction that brings a new, unnamed BEP; the objects edited in place between two writes
HIST_OPS2 = ['cti', 'yaml', 'add_bep', 'edit']
HIST_INITS2 = [dict(ids='auto', li_names='auto', bep_names='auto', bep=2, build='direct', sites=1),
               dict(ids='auto', li_names='auto', bep_names='clash', bep=2, build='direct', sites=1, surf='nasa9')]
# third alphabet: the same objects written for different requests, one after the other (writer @ request): every
# file says what was asked for IT, whatever was asked for before
HIST_REQS = {'base': {}, 'motz': dict(motz=True), 'P': dict(P=10., ads_act='get_G_act'), 'T': dict(T=300.),
             'units': dict(units='si')}
HIST_OPS3 = ['%s@%s' % (w_, r_) for r_ in HIST_REQS for w_ in ('yaml', 'cti')]
HIST_INITS3 = [dict(ids='auto', li_names='auto', build='direct', sites=1),
               dict(ids='auto', li_names='auto', build='direct', sites=1, rmotz='alt', surf='shomate')]
EXTRA_BEPS = [('NH2-H', dict(slope=0.41, intercept=17.5, direction='cleavage', descriptor='delta_H'),
               'NH3(T) + RU(T) = NH2-H = NH2(T) + H(T) + RU(B)', 'cleavage'),
              ('N-N', dict(slope=0.63, intercept=31.25, direction='synthesis', descriptor='delta_H'),
               '2N(T) + 2RU(B) = N-N = N2 + 2RU(T)', 'synthesis'),
              ('H-H', dict(slope=0.37, intercept=11.75, direction='cleavage', descriptor='delta_H'),
               'NH2(T) + H(T) + RU(B) = H-H = NH3(T) + RU(T)', 'cleavage'),
              ('X-H', dict(slope=0.22, intercept=9.5, direction='synthesis', descriptor='delta_H'),
               'N(T) + H(T) + RU(B) = X-H = NH(T) + RU(T)', 'synthesis')]


def _hist_add(m, op, n_rx, n_li, n_bep=0):
    from pmutt import pmutt_list_to_dict
    from pmutt.mixture.cov import PiecewiseCovEffect
    from pmutt.omkm.reaction import BEP, SurfaceReaction
    if op == 'add_rxn':
        tag, s, kw = EXTRA_RXNS[n_rx]
        m.reactions.append(SurfaceReaction.from_string(s, m.lookup, id=None, **kw))
        m.rxn_tags.append(tag)
    elif op == 'add_bep':
        key, kw, string, direction = EXTRA_BEPS[n_bep]
        bep = BEP(name=None, **kw)
        m.beps.append(bep)
        m.lookup[key] = bep
        m.reactions.append(SurfaceReaction.from_string(string, m.lookup, id=None, direction=direction))
        m.rxn_tags.append('bep')
    else:
        m.interactions.append(PiecewiseCovEffect(name=None, **copy.deepcopy(EXTRA_LIS[n_li])))
    attach_phases(m)


def _hist_edit(m, n):
    """The n-th in-place edit of objects the caller still holds: a coefficient inside a species' array, a
    slope inside an interaction's list, rate inputs of two reactions, a BEP, the site density of a phase."""
    step = 0.25 * (n + 1)
    for sp in m.species:
        if sp.name == 'NH(T)':
            if hasattr(sp, 'nasas'):
                sp.nasas[0].a[7] -= 40. * step
            elif hasattr(sp, 'a_low'):
                sp.a_low[5] -= 40. * step
            else:
                sp.a[5] -= 0.1 * step
    if m.interactions:
        m.interactions[0].slopes[0] -= 1.5 * step
    m.reactions[2].beta = 0.5 + step
    m.reactions[-1].Ea = 7.5 + step
    if m.beps:
        m.beps[0].slope += 0.125 * step
        m.beps[0].intercept -= step
    for ph in m.phases:
        if ph.name == 'terrace':
            ph.site_density = ph.site_density * (1. + step)
            m.sden['terrace'] = ph.site_density


def _hist_eval(case, ctx):
    cfg = _cfg_of(case['init'])
    req0 = _req(cfg)
    _reset_defaults()
    try:
        m = build_model(cfg)            # lives through the history, written repeatedly
        m2 = build_model(cfg)           # shadow: same additions, never written
        pinned_rx, pinned_li, pinned_bp = {}, {}, {}
        last_text = {}
        n_rx = n_li = n_bep = n_edit = 0
        ok = True
        for k, op in enumerate(case['ops']):
            ctx.tag('hist:' + op.partition('@')[0])
            ctx.trans()
            if op in ('add_rxn', 'add_li', 'add_bep'):
                _hist_add(m, op, n_rx, n_li, n_bep)
                _hist_add(m2, op, n_rx, n_li, n_bep)
                n_rx += op == 'add_rxn'
                n_li += op == 'add_li'
                n_bep += op == 'add_bep'
                last_text = {}
                continue
            if op == 'edit':
                _hist_edit(m, n_edit)
                _hist_edit(m2, n_edit)
                n_edit += 1
                last_text = {}
                continue
            op_full = op
            op, _, rq = op.partition('@')
            part = 'history:' + op
            req = req0
            if rq:                                # this write has a request of its own
                ctx.tag('hist:request ' + rq)
                req = _req(dict(cfg, **HIST_REQS[rq]))
            if n_rx or n_li or n_bep:
                ctx.tag('hist:write after add')
            if n_edit:
                ctx.tag('hist:write after edit')
            ex = expected_model(m2, req)
            for j, rec in enumerate(ex['reactions']):
                if rec['user_id'] is None and j in pinned_rx:
                    rec['user_id'] = pinned_rx[j]
            for j, rec in enumerate(ex['interactions']):
                if rec['user_id'] is None and j in pinned_li:
                    rec['user_id'] = pinned_li[j]
            for j, rec in enumerate(ex['beps']):
                if rec['name'] is None and j in pinned_bp:
                    rec['name'] = pinned_bp[j]
            ident, before = _identities(m), raw_state(m)
            text = write_model(m, op, req, 'str', ctx, case, part)
            got, probs = (read_thermo_yaml if op == 'yaml' else read_cti)(text)
            ok &= ctx.true(C_WF, got is not None and not probs, dict(part=part, item='file'), case, probs, [])
            if got is None:
                return False
            ok &= compare(ex, got, req, ctx, case, part, _supplied(m))
            ok &= check_left_alone(m, before, ident, ctx, case, part)
            if op_full in last_text:
                ctx.tag('hist:same writer twice')
                ok &= ctx.true(C_H_SAME, _strip_stamp(text) == last_text[op_full], dict(part=part, item='file'), case,
                               _first_diff(last_text[op_full], _strip_stamp(text)), 'identical text')
            last_text[op_full] = _strip_stamp(text)
            if len(got['reactions']) == len(ex['reactions']):
                for j, r in enumerate(got['reactions']):
                    pinned_rx.setdefault(j, r['id'])
            if len(got['interactions']) == len(ex['interactions']):
                for j, r in enumerate(got['interactions']):
                    pinned_li.setdefault(j, r['id'])
            if len(got['beps']) == len(ex['beps']):
                for j, r in enumerate(got['beps']):
                    pinned_bp.setdefault(j, r['id'])
            if not ok:
                return False
        return bool(ok)
    finally:
        _reset_defaults()


def _first_diff(a, b):
    la, lb = a.split('\n'), b.split('\n')
    for i, (x, y) in enumerate(zip(la, lb)):
        if x != y:
            return [i, x[:80], y[:80]]
    return ['length', len(la), len(lb)]


def _run_hist(shard, ctx):
    init, first, depth = shard['init'], shard['first'], shard['depth']
    alphabet = shard.get('ops') or HIST_OPS
    limits = dict(add_rxn=len(EXTRA_RXNS), add_li=len(EXTRA_LIS), add_bep=len(EXTRA_BEPS))
    frontier = [[first]]
    for d in range(1, depth + 1):
        nxt = []
        for ops in frontier:
            case = dict(kind='hist', init=init, ops=ops)
            res = {}

            def run(case_, ctx_, res=res):
                res['ok'] = _hist_eval(case_, ctx_)
            ctx.state(('hist', sorted(init.items()), ops))
            if ops[-1].partition('@')[0] in ('cti', 'yaml') and len(ops) > 1:
                ctx.nontrivial(('hist', sorted(init.items()), ops))
            if not ctx.run_case(run, case, dict(part='history:' + ops[-1].partition('@')[0], item='write')):
                continue
            if not res.get('ok'):
                continue
            if d == depth:
                ctx.sample(case, limit=1)
                continue
            for op in alphabet:
                if op in limits and ops.count(op) >= limits[op]:
                    continue
                nxt.append(ops + [op])
        frontier = nxt


# =============================================================================================
# D - moves: species moved between coexisting phases (in both orders), then the model is written
# =============================================================================================
# the model: both interfaces, phases built directly, plus two spare phases constructed without species
MOVE_BASE = dict(build='direct', sites=2, spare=True)
# (species moved together, from, to): a surface reactant / the site species / the gas reactant of the adsorption
# steps / a step-site species, to the other interface, to a spare interface, to a spare gas phase
MOVES = [(['NH(T)'], 'terrace', 'step'), (['NH(T)'], 'terrace', 'kink'), (['RU(T)'], 'terrace', 'kink'),
         (['H2'], 'gas', 'feed'), (['N(S)'], 'step', 'terrace'),
         (['NH2(T)', 'NH(T)'], 'terrace', 'step'), (['H2', 'N2'], 'gas', 'feed')]
MOVE_ADD = ['append', 'extend', 'set']                 # append_species / extend_species / species = old + [...]
MOVE_REM = ['remove', 'pop', 'set', 'clear']           # remove_species / pop_species / species = rest / clear + extend(rest)
MOVE_ORDERS = ['add-remove', 'remove-add', 'interleaved', 'add-undo']
MOVE_CFGS = [dict(surf='shomate', units='si'), dict(surf='nasa9', gas='nasa9', units='default'),
             dict(P=10., ads_act='get_G_act', ids='user'), dict(build='organize')]
PLANNED_TAGS += ['move:' + o_ for o_ in MOVE_ORDERS] + ['move:add ' + a_ for a_ in MOVE_ADD] + \
                ['move:remove ' + r_ for r_ in MOVE_REM] + ['move:round trip', 'move:spare phase written',
                                                             'move:gas species', 'move:two species']


def _mv_ref(members, op):
    """One population operation on the reference (one list of names per phase)."""
    kind, pn = op[0], op[1]
    cur = members[pn]
    if kind == 'append':
        cur.append(op[2])
    elif kind == 'extend':
        cur.extend(op[2])
    elif kind == 'set':
        members[pn] = list(op[2])
    elif kind == 'remove':
        cur.remove(op[2])
    elif kind == 'pop':
        cur.pop(op[2])
    elif kind == 'clear':
        del cur[:]
    else:
        raise ValueError(kind)


def _mv_real(m, op):
    """The same operation on the real phase objects."""
    kind, pn = op[0], op[1]
    ph = [x for x in m.phases if x.name == pn][0]
    sp = {x.name: x for x in m.species}
    if kind == 'append':
        ph.append_species(sp[op[2]])
    elif kind == 'extend':
        ph.extend_species([sp[n] for n in op[2]])
    elif kind == 'set':
        ph.species = [sp[n] for n in op[2]]
    elif kind == 'remove':
        ph.remove_species(op[2])
    elif kind == 'pop':
        ph.pop_species(op[2])
    elif kind == 'clear':
        ph.clear_species()
    else:
        raise ValueError(kind)


def _mv_ops(members, mv):
    """The operations of one move, spelled out against the current reference (which is updated)."""
    ops = []

    def do(op):
        _mv_ref(members, op)
        ops.append(op)

    def add(pn, names):
        if mv['add'] == 'append':
            for n in names:
                do(['append', pn, n])
        elif mv['add'] == 'extend':
            do(['extend', pn, list(names)])
        else:
            do(['set', pn, members[pn] + list(names)])

    def rem(pn, names):
        if mv['rem'] == 'remove':
            for n in names:
                do(['remove', pn, n])
        elif mv['rem'] == 'pop':
            for n in names:
                do(['pop', pn, members[pn].index(n)])
        elif mv['rem'] == 'set':
            do(['set', pn, [n for n in members[pn] if n not in names]])
        else:
            rest = [n for n in members[pn] if n not in names]
            do(['clear', pn])
            if rest:
                do(['extend', pn, rest])
    g, src, dst, order = mv['group'], mv['src'], mv['dst'], mv['order']
    if order == 'add-remove':
        add(dst, g)
        rem(src, g)
    elif order == 'remove-add':
        rem(src, g)
        add(dst, g)
    elif order == 'interleaved':
        for n in g:
            add(dst, [n])
            rem(src, [n])
    elif order == 'add-undo':                 # added to the other phase by mistake and taken out of it again
        add(dst, g)
        rem(dst, g)
    else:
        raise ValueError(order)
    return ops


def _mv_settle(m, members):
    """Reference membership after the history -> home of every species, phases to write."""
    m.members = {pn: list(l) for pn, l in members.items()}
    m.home = {}
    for pn, l in m.members.items():
        for n in l:
            if n in m.home:
                raise ValueError('harness: %s is listed by two phases' % n)
            m.home[n] = pn
    if set(m.home) != {x.name for x in m.species}:
        raise ValueError('harness: a species is listed by no phase')
    m.phase_names = [ph.name for ph in m.phases if ph.name not in SPARE or m.members[ph.name]]


def _moves_label(moves):
    if len(moves) == 1:
        return moves[0]['order']
    a, b = moves[0], moves[-1]
    if len(moves) == 2 and a['group'] == b['group'] and a['src'] == b['dst'] and a['dst'] == b['src']:
        return 'round trip'
    return 'chain'


def _moves_eval(case, ctx):
    cfg = _cfg_of(dict(MOVE_BASE, **case['delta']))
    writer = case['writer']
    part = 'moves_yaml' if writer == 'yaml' else 'moves_cti'
    label = _moves_label(case['moves'])
    extra = dict(hist=label)
    req = _req(cfg)
    _reset_defaults()
    try:
        m2 = build_model(cfg)                 # untouched twin: only its reference membership follows the history
        m = build_model(cfg)
        members = {pn: list(l) for pn, l in m2.members.items()}
        ops = []
        for mv in case['moves']:
            ops += _mv_ops(members, mv)
            ctx.tag('move:' + mv['order'])
            ctx.tag('move:add ' + mv['add'])
            if mv['order'] != 'add-undo' or mv['rem'] != 'clear':
                ctx.tag('move:remove ' + mv['rem'])
            if len(mv['group']) > 1:
                ctx.tag('move:two species')
            if mv['src'] == 'gas':
                ctx.tag('move:gas species')
        if label == 'round trip':
            ctx.tag('move:round trip')
        for op in ops:
            _mv_real(m, op)
            ctx.trans()
        _mv_settle(m2, members)
        _mv_settle(m, members)
        if any(pn in SPARE for pn in m.phase_names):
            ctx.tag('move:spare phase written')
        ex = expected_model(m2, req)
        ident, before = _identities(m), raw_state(m)
        # ctml_writer converts mechanisms in which every reaction touches one interface and the gas species sit in
        # the gas phase the interfaces name
        one_if = all(len({m.home[n] for _, n in r['reactants'] + r['products']
                          if m.phase_kind[m.home[n]] == 'interacting_interface'}) <= 1 for r in ex['reactions'])
        gas_ok = all(m.home[n] != 'feed' for n in m.home)
        text = write_model(m, writer, req, 'str', ctx, case, part, oracle=one_if and gas_ok)
        got, probs = (read_thermo_yaml if writer == 'yaml' else read_cti)(text)
        ctx.true(C_WF, got is not None and not probs, dict(part=part, item='file', **extra), case, probs, [])
        if got is None:
            return
        compare(ex, got, req, ctx, case, part, _supplied(m), sig_extra=extra)
        check_left_alone(m, before, ident, ctx, case, part)
    finally:
        _reset_defaults()


def _move_histories(tier):
    """-> [(cfg delta, [moves])].  quick: every move (one species, two species together) in every order x
    {add kind x remove kind}, the added-by-mistake-and-removed histories, every round trip in 2 x 2 orders, and
    every move in every order on four other models (other classes / units / request / organize_phases);
    thorough: the kind product on the other models too, and every chain of two different moves."""
    q = tier == 'quick'
    out = []

    def mv(g, src, dst, order, add='append', rem='remove'):
        return dict(group=list(g), src=src, dst=dst, order=order, add=add, rem=rem)
    for g, src, dst in MOVES:
        single = len(g) == 1
        orders = ['add-remove', 'remove-add'] + ([] if single else ['interleaved'])
        kinds = [(a, r) for a in MOVE_ADD for r in MOVE_REM]
        for order in orders:
            for a, r in kinds:
                out.append(({}, [mv(g, src, dst, order, a, r)]))
        for a, r in [(a, 'remove') for a in MOVE_ADD] + [('append', 'pop'), ('append', 'set')]:
            out.append(({}, [mv(g, src, dst, 'add-undo', a, r)]))
        for o1 in ('add-remove', 'remove-add'):
            for o2 in ('add-remove', 'remove-add'):
                out.append(({}, [mv(g, src, dst, o1), mv(g, dst, src, o2)]))
        for delta in MOVE_CFGS:
            for order in orders:
                for a, r in (kinds if not q else [('append', 'remove')]):
                    out.append((delta, [mv(g, src, dst, order, a, r)]))
    if not q:
        for (g1, s1, d1), (g2, s2, d2) in itertools.permutations(MOVES, 2):
            if set(g1) & set(g2):
                continue
            for o1 in ('add-remove', 'remove-add'):
                for o2 in ('add-remove', 'remove-add'):
                    out.append(({}, [mv(g1, s1, d1, o1), mv(g2, s2, d2, o2)]))
    return out


def _run_moves(shard, ctx):
    for delta, moves in shard['histories']:
        for writer in ('yaml', 'cti'):
            case = dict(kind='moves', writer=writer, delta=delta, moves=moves)
            key = ('moves', writer, sorted(delta.items(), key=str), core_dumps(moves))
            ctx.state(key)
            ctx.nontrivial(key)
            part = 'moves_yaml' if writer == 'yaml' else 'moves_cti'
            ctx.run_case(_moves_eval, case, dict(part=part, item='write', hist=_moves_label(moves)))
            if len(moves) == 2:
                ctx.sample(case, limit=1)


def core_dumps(obj):
    import json
    return json.dumps(obj, sort_keys=True)


# =============================================================================================
# B1 - reactor YAML: every supplied value with its unit, nothing else
# =============================================================================================
def _num(i, f, unit):
    """int / float / numpy kinds of one quantity plus the string-with-unit kind."""
    d = {'int': i, 'float': f, 'np.int64': ('np.int64', i + 1), 'np.float64': ('np.float64', f * 1.25)}
    if unit is not None:
        d['str-unit'] = '%s %s' % (f * 2, unit)
    return d


# parameter: (path in the file, unit template, {kind: value})
R_PARAMS = {
    'reactor_type': (('reactor', 'type'), None, {'str': 'cstr'}),
    'temperature_mode': (('reactor', 'temperature_mode'), None, {'str': 'isothermal'}),
    'pressure_mode': (('reactor', 'pressure_mode'), None, {'str': 'isobaric'}),
    'nodes': (('reactor', 'nodes'), None, {'int': 3, 'np.int64': ('np.int64', 4)}),
    'V': (('reactor', 'volume'), '_length3', _num(2, 1.5, 'm3')),
    'T': (('reactor', 'temperature'), None, _num(900, 873.15, None)),
    'P': (('reactor', 'pressure'), '_pressure', _num(2, 1.25, 'bar')),
    'A': (('reactor', 'area'), '_length2', _num(7, 6.5, 'm2')),
    'L': (('reactor', 'length'), '_length', _num(11, 10.5, 'mm')),
    'cat_abyv': (('reactor', 'cat_abyv'), '/_length', _num(1500, 1450.5, '/m')),
    'flow_rate': (('inlet_gas', 'flow_rate'), '_length3/_time', _num(4, 3.5, 'm3/s')),
    'residence_time': (('inlet_gas', 'residence_time'), '_time', _num(5, 4.5, 'min')),
    'mass_flow_rate': (('inlet_gas', 'mass_flow_rate'), '_mass/_time', _num(6, 5.5, 'kg/s')),
    'end_time': (('simulation', 'end_time'), '_time', _num(50, 49.5, 'h')),
    'transient': (('simulation', 'transient'), None, {'bool': True, 'bool-false': False}),
    'stepping': (('simulation', 'stepping'), None, {'str': 'logarithmic'}),
    'init_step': (('simulation', 'init_step'), None, {'float': 1.0e-15, 'np.float64': ('np.float64', 2.0e-15), 'str': '1e-15 s'}),
    'step_size': (('simulation', 'step_size'), None, {'int': 10, 'float': 9.5, 'np.int64': ('np.int64', 12),
                                                       'np.float64': ('np.float64', 8.5), 'str': '0.5 s'}),
    'output_format': (('simulation', 'output_format'), None, {'str': 'csv'}),
    'atol': (('simulation', 'solver', 'atol'), None, {'float': 1.0e-15, 'np.float64': ('np.float64', 3.0e-15)}),
    'rtol': (('simulation', 'solver', 'rtol'), None, {'float': 1.0e-10, 'np.float64': ('np.float64', 3.0e-10)}),
    'full_SA': (('simulation', 'sensitivity', 'full'), None, {'bool': True, 'bool-false': False}),
    'reactions_SA': (('simulation', 'sensitivity', 'reactions'), None, {'list-str': ['r_0001', 'r_0004'], 'objs': 'rxn'}),
    'species_SA': (('simulation', 'sensitivity', 'species'), None, {'list-str': ['H2', 'N(T)'], 'objs': 'sp'}),
    'multi_T': (('simulation', 'multi_input', 'temperature'), None,
                {'list': [800, 900.5], 'list-np': [('np.int64', 810), ('np.float64', 910.5)], 'array': ('array', [820., 920.5])}),
    'multi_P': (('simulation', 'multi_input', 'pressure'), '_pressure',
                {'list': [1, 2.5], 'list-np': [('np.int64', 3), ('np.float64', 4.5)], 'array': ('array', [5., 6.5]),
                 'list-str': ['1 atm', '2.5 bar'], 'list-mixed': ['1 atm', 2.5], 'list-mixed2': [3, '2.5 bar']}),
    'multi_flow_rate': (('simulation', 'multi_input', 'flow_rate'), '_length3/_time',
                        {'list': [7, 8.5], 'list-np': [('np.int64', 9), ('np.float64', 10.5)], 'array': ('array', [11., 12.5]),
                         'list-str': ['1 cm3/s', '2.5 m3/h'], 'list-mixed': ['1 cm3/s', 8.5],
                         'list-mixed2': [7, '2.5 m3/h']}),
}
R_DICTS = {
    'reactor': (('reactor',), {'dict-extra': {'mode': 'isothermal', 'wall_T': 300.5}, 'dict-override': {'temperature': 555}}),
    'inlet_gas': (('inlet_gas',), {'dict-extra': {'composition': 'NH3:1', 'n': 2}, 'dict-override': {'flow_rate': '7 cm3/s'}}),
    'solver': (('simulation', 'solver'), {'dict-extra': {'max_steps': 5000}, 'dict-override': {'atol': 1.0e-12}}),
    'simulation': (('simulation',), {'dict-extra': {'log_level': 'debug'}, 'dict-override': {'end_time': '9 s'}}),
    'multi_input': (('simulation', 'multi_input'), {'dict-extra': {'tag': 'sweep'}, 'dict-override': {'temperature': [1, 2]}}),
    'misc': ((), {'dict-extra': {'title': 'run7', 'version': 2}}),
}
# phases: 'list' / 'dict' are the base population (one gas, one bulk, two interfaces, grouped by type); the family
# 'list:g,b,s:order' / 'dict:g,b,s' hands over g gas phases, b bulk phases and s interfaces (0 .. 3, thorough 0 .. 4, of
# each type, so none / one / two / three and more of one type all occur), the list grouped by type, reversed or
# interleaved (one of each type in turn).  One member of the family is paired with every other parameter.
R_OTHER = {'phases': ['list', 'dict', 'list:3,3,1:interleaved', 'omitted'], 'units': ['obj', 'none', 'dict']}
# name: (class, initial state or None) - four phases of each type
PH_TABLE = {'gas': ('IdealGas', {'NH3': 1.0}), 'feed': ('IdealGas', {'H2': 0.75, 'N2': 0.25}),
            'sweep': ('IdealGas', None), 'purge': ('IdealGas', {'Ar': 1.0}),
            'bulk': ('StoichSolid', None), 'bulk2': ('StoichSolid', {'RU(B)': 1.0}),
            'bulk3': ('StoichSolid', {'C(B)': 1.0}), 'bulk4': ('StoichSolid', None),
            'terrace': ('InteractingInterface', {'RU(T)': 0.75, 'H(T)': 0.25}),
            'step': ('InteractingInterface', {'RU(S)': 1.0}), 'kink': ('InteractingInterface', None),
            'edge': ('InteractingInterface', {'RU(E)': 0.5, 'N(E)': 0.5})}
PH_GROUP = {'IdealGas': 'gas', 'StoichSolid': 'bulk', 'InteractingInterface': 'surfaces'}
PH_BY_GROUP = {g: [n for n, (c, _) in PH_TABLE.items() if PH_GROUP[c] == g] for g in ('gas', 'bulk', 'surfaces')}
PH_ORDERS = ['grouped', 'reversed', 'interleaved']


def _ph_counts(pk):
    """'list' / 'dict' / 'list:g,b,s[:order]' / 'dict:g,b,s' -> (route, (g, b, s), order)."""
    parts = pk.split(':')
    counts = (1, 1, 2) if len(parts) == 1 else tuple(int(v) for v in parts[1].split(','))
    return parts[0], counts, (parts[2] if len(parts) > 2 else 'grouped')


def _ph_names(pk):
    """Names of the phases of the kind, in the order in which the caller's list holds them."""
    route, counts, order = _ph_counts(pk)
    groups = [PH_BY_GROUP[g][:n] for g, n in zip(('gas', 'bulk', 'surfaces'), counts)]
    if order == 'interleaved':
        names = [grp[i] for i in range(max(counts)) for grp in groups if i < len(grp)]
    else:
        names = [n for grp in groups for n in grp]
        if order == 'reversed':
            names.reverse()
    return names


def _ph_origin(pk):
    """Signature kind of a phases kind: the route, and whether three or more phases share a type."""
    route, counts, order = _ph_counts(pk)
    return ('phases', route + ('-3+' if max(counts) >= 3 else ''))


def _ph_family(tier):
    top = 3 if tier == 'quick' else 4
    out = []
    for counts in itertools.product(range(top + 1), repeat=3):
        if not any(counts):
            continue                          # an empty list: the statement does not say (empty section or none)
        c = ','.join(str(v) for v in counts)
        out += ['list:%s:%s' % (c, o) for o in PH_ORDERS]
        out.append('dict:' + c)
    # the base population and the member paired with every parameter are enumerated already
    return [k for k in out if k != 'list:1,1,2:grouped' and k not in R_OTHER['phases']]
R_BASE = dict(reactor_type='str', temperature_mode='str', V='float', T='int', P='float', cat_abyv='int',
              flow_rate='str-unit', end_time='int', transient='bool', stepping='str', init_step='float',
              atol='float', rtol='float', output_format='str', phases='list', units='obj')
R_ORDER = sorted(R_PARAMS) + sorted(R_DICTS) + sorted(R_OTHER)
R_REUSED = ['reactor', 'inlet_gas', 'solver', 'simulation', 'multi_input']


def _r_kinds(p):
    """All kinds of parameter p other than its base kind ('omitted' included)."""
    if p in R_PARAMS:
        kinds = list(R_PARAMS[p][2])
    elif p in R_DICTS:
        kinds = list(R_DICTS[p][1]) + (['dict-reused'] if p in R_REUSED else [])
    else:
        kinds = [k for k in R_OTHER[p] if k != 'omitted']
    kinds = ['omitted'] + kinds
    base = R_BASE.get(p, 'omitted')
    return [k for k in kinds if k != base]


def _r_value(v, objs):
    """Materialise a table value (numpy scalars / arrays / objects are not JSON-able)."""
    if isinstance(v, tuple) and v and v[0] == 'np.int64':
        return np.int64(v[1])
    if isinstance(v, tuple) and v and v[0] == 'np.float64':
        return np.float64(v[1])
    if isinstance(v, tuple) and v and v[0] == 'array':
        return np.array(v[1])
    if isinstance(v, list):
        return [_r_value(x, objs) for x in v]
    if v == 'rxn':
        return objs['rxn']
    if v == 'sp':
        return objs['sp']
    return copy.deepcopy(v)


def _r_plain(v):
    """The supplied value as plain Python (what the file must say)."""
    if isinstance(v, (np.integer,)):
        return int(v)
    if isinstance(v, (np.floating,)):
        return float(v)
    if isinstance(v, np.ndarray):
        return [_r_plain(x) for x in v.tolist()]
    if isinstance(v, (list, tuple)):
        return [_r_plain(x) for x in v]
    return v


def _r_spec(v, tmpl, units, origin):
    v = _r_plain(v)
    if isinstance(v, bool):
        return ('bool', v, origin)
    if isinstance(v, str):
        return ('str', v, origin)
    if isinstance(v, list):
        return ('list', [_r_spec(x, tmpl, units, origin) for x in v], origin)
    if isinstance(v, dict):
        return ('map', {k: _r_spec(x, None, None, origin) for k, x in v.items()}, origin)
    if hasattr(v, 'id') and not isinstance(v, (int, float)):
        return ('str', v.id, origin)
    if hasattr(v, 'name') and not isinstance(v, (int, float)):
        return ('str', v.name, origin)
    if tmpl is None or units is None:
        return ('num', float(v), origin)
    return ('qty', float(v), ref.unit_from_template(tmpl, units), origin)


def _r_put(tree, path, spec, keep=False):
    node = tree
    for k in path[:-1]:
        node = node.setdefault(k, {})
    if keep and path[-1] in node:
        return
    node[path[-1]] = spec


def _r_objs(pk='list'):
    """Objects for reactions_SA / species_SA / phases (built once per case)."""
    from pmutt.omkm import phase as omkm_phase

    class _R:                                     # stands in for a reaction: only .id is read
        def __init__(self, i):
            self.id = i
    sp = [make_species('H2', 'nasa'), make_species('N(T)', 'shomate')]
    ph = []
    for name in (_ph_names(pk) if pk.split(':')[0] == 'list' else []):
        cls, state = PH_TABLE[name]
        kw = dict(name=name, species=[])
        if state is not None:
            kw['initial_state'] = dict(state)
        if cls == 'InteractingInterface':
            kw['site_density'] = SDEN.get(name, 7.5e-10)
        ph.append(getattr(omkm_phase, cls)(**kw))
    return dict(rxn=[_R('r_0002'), _R('r_0005')], sp=sp, phases=ph)


PH_DICT = {'gas': [{'name': 'gas', 'initial_state': 'NH3:1.0'}], 'bulk': [{'name': 'bulk'}],
           'surfaces': [{'name': 'terrace', 'initial_state': 'RU(T):1.0'}]}


def _reactor_call(sel, objs):
    """-> (kwargs for write_yaml, expected tree, prior-call kwargs or None)."""
    ukind = sel.get('units', 'omitted')
    U = UNIT_SYSTEMS['ex']
    units_dict = None if ukind in ('none', 'omitted') else dict(U)
    kw, tree, prior = {}, {}, None
    if ukind == 'obj':
        kw['units'] = make_units('ex')
    elif ukind == 'dict':
        kw['units'] = dict(U)
    for p in sorted(R_PARAMS):
        kind = sel.get(p, 'omitted')
        if kind == 'omitted':
            continue
        path, tmpl, kinds = R_PARAMS[p]
        val = _r_value(kinds[kind], objs)
        kw[p] = val
        _r_put(tree, path, _r_spec(val, tmpl, units_dict, (p, kind)))
    # first element of a multi_* list stands in for an omitted scalar (optional, see ASSUMPTIONS)
    for scalar, multi, path, tmpl in (('T', 'multi_T', ('reactor', 'temperature'), None),
                                      ('P', 'multi_P', ('reactor', 'pressure'), '_pressure'),
                                      ('flow_rate', 'multi_flow_rate', ('inlet_gas', 'flow_rate'), '_length3/_time')):
        if scalar not in kw and multi in kw:
            first = _r_plain(kw[multi])[0]
            _r_put(tree, path, ('optional', _r_spec(first, tmpl, units_dict, (multi, sel[multi])), (multi, sel[multi])))
    for p in sorted(R_DICTS):
        kind = sel.get(p, 'omitted')
        if kind == 'omitted':
            continue
        path, kinds = R_DICTS[p]
        content = copy.deepcopy(kinds['dict-extra' if kind == 'dict-reused' else kind])
        kw[p] = content
        for k, v in content.items():
            _r_put(tree, path + (k,), _r_spec(v, None, None, (p, kind)))
        if kind == 'dict-reused':
            prior = prior or {}
            prior[p] = content                     # the same dict object goes to both calls
    pk = sel.get('phases', 'omitted')
    route = pk.split(':')[0]
    origin = _ph_origin(pk) if pk != 'omitted' else None
    if route == 'list':
        kw['phases'] = objs['phases']
        groups = {'gas': [], 'bulk': [], 'surfaces': []}
        for ph in objs['phases']:
            g = {'IdealGas': 'gas', 'StoichSolid': 'bulk', 'InteractingInterface': 'surfaces'}[type(ph).__name__]
            rec = {'name': ('str', ph.name, origin)}
            if ph.initial_state is not None:
                rec['initial_state'] = ('state', dict(ph.initial_state), origin)
            groups[g].append(('map', rec, origin))
        for g, lst in groups.items():
            if not lst:
                continue
            spec = lst[0] if (len(lst) == 1 and g != 'surfaces') else ('list', lst, origin)
            _r_put(tree, ('phases', g), spec)
    elif pk == 'dict':
        kw['phases'] = copy.deepcopy(PH_DICT)
        for g, lst in PH_DICT.items():
            specs = [('map', {k: ('str', v, origin) for k, v in d.items()}, origin) for d in lst]
            spec = specs[0] if (len(specs) == 1 and g != 'surfaces') else ('list', specs, origin)
            _r_put(tree, ('phases', g), spec)
    elif route == 'dict':
        # the caller groups the phases: {type: [{name, initial_state}, ...]}, types without a phase left out
        given = {}
        for name in _ph_names(pk):
            cls, state = PH_TABLE[name]
            d = {'name': name}
            if state is not None:
                d['initial_state'] = ', '.join('%s:%s' % (k, v) for k, v in state.items())
            given.setdefault(PH_GROUP[cls], []).append(d)
        kw['phases'] = copy.deepcopy(given)
        for g, lst in given.items():
            specs = [('map', {k: (('state', PH_TABLE[d['name']][1], origin) if k == 'initial_state' else
                                  ('str', v, origin)) for k, v in d.items()}, origin) for d in lst]
            spec = specs[0] if (len(specs) == 1 and g != 'surfaces') else ('list', specs, origin)
            _r_put(tree, ('phases', g), spec)
    return kw, tree, prior


C_R_WF = 'reactor file loads as plain YAML (no python-specific tags)'
C_R_PRESENT = 'reactor file carries every supplied value'
C_R_VALUE = 'reactor value and unit as supplied'
C_R_EXTRA = 'reactor file carries nothing that was not supplied'


C_R_ALONE = "write_yaml leaves the caller's lists, arrays and dictionaries as they were"
C_R_AGAIN = 'write_yaml called again with the same arguments gives the same file'


def _same_plain(a, b):
    if isinstance(a, np.ndarray) or isinstance(b, np.ndarray):
        return type(a) is type(b) and a.shape == b.shape and a.dtype == b.dtype and bool(np.all(a == b))
    if isinstance(a, dict):
        return isinstance(b, dict) and list(a) == list(b) and all(_same_plain(a[k], b[k]) for k in a)
    if isinstance(a, (list, tuple)):
        return type(a) is type(b) and len(a) == len(b) and all(_same_plain(x, y) for x, y in zip(a, b))
    return type(a) is type(b) and a == b


def _r_match(spec, v):
    """-> None when the loaded node says what the specification says, else a reason."""
    kind = spec[0]
    if kind == 'optional':
        return _r_match(spec[1], v)
    if kind == 'num':
        f = ref.to_float(v)
        return None if (f is not None and abs(f - spec[1]) <= 1e-15 * abs(spec[1])) else 'number differs'
    if kind == 'qty':
        q = ref.qty(v)
        if q is None:
            return 'not "<number> <unit>"'
        if abs(q[0] - spec[1]) > 1e-15 * abs(spec[1]):
            return 'number differs'
        return None if q[1] == spec[2] else 'unit differs'
    if kind == 'str':
        return None if v == spec[1] else 'string differs'
    if kind == 'bool':
        return None if ref.to_bool(v) is spec[1] else 'boolean differs'
    if kind == 'state':
        if not isinstance(v, str):
            return 'initial state is not a string'
        try:
            got = {a.split(':')[0].strip(): float(a.split(':')[1]) for a in v.split(',')}
        except (ValueError, IndexError):
            return 'initial state is not "name:x, ..."'
        return None if got == {k: float(x) for k, x in spec[1].items()} else 'initial state differs'
    if kind == 'list':
        if not isinstance(v, list) or len(v) != len(spec[1]):
            return 'list shape differs'
        for s, x in zip(spec[1], v):
            r = _r_match(s, x)
            if r:
                return r
        return None
    if kind == 'map':
        if not isinstance(v, dict):
            return 'not a mapping'
        if set(v) != set(spec[1]):
            return 'mapping keys differ'
        for k, s in spec[1].items():
            r = _r_match(s, v[k])
            if r:
                return r
        return None
    raise ValueError(kind)


def _r_sig(origin, sel, case):
    p, kind = origin
    if p in R_PARAMS:
        fam = 'with-unit' if R_PARAMS[p][1] else 'unitless'
    elif p in R_DICTS:
        fam = 'generic-dict'
    else:
        fam = p
    sig = dict(part='reactor', family=fam, kind=kind,
               units='none' if sel.get('units', 'omitted') in ('none', 'omitted') else 'given')
    if any(k == 'dict-reused' for k in sel.values()):
        sig['history'] = 'second write with the same generic dictionaries'
    return sig


def _r_walk(tree, doc, sel, ctx, case, path=()):
    ok = True
    ukind = 'none' if sel.get('units', 'omitted') in ('none', 'omitted') else 'given'
    for k, spec in tree.items():
        if isinstance(spec, dict):                         # interior node
            sub = doc.get(k) if isinstance(doc, dict) else None
            if not isinstance(sub, dict):
                # every leaf below is missing
                for leaf in _r_leaves(spec):
                    if leaf[0] == 'optional':
                        continue
                    sig = _r_sig(leaf[-1], sel, case)
                    ok &= ctx.fail(C_R_PRESENT, sig, case, 'section %s missing' % '.'.join(path + (k,)), 'present')
                continue
            ok &= _r_walk(spec, sub, sel, ctx, case, path + (k,))
            continue
        sig = _r_sig(spec[-1], sel, case)
        if not isinstance(doc, dict) or k not in doc:
            if spec[0] != 'optional':
                ok &= ctx.fail(C_R_PRESENT, sig, case, '%s missing' % '.'.join(path + (k,)), 'present')
            continue
        ctx.true(C_R_PRESENT, True, sig, case)
        why = _r_match(spec, doc[k])
        ok &= ctx.true(C_R_VALUE, why is None, sig, case, [why, doc[k] if not isinstance(doc[k], (dict, list)) else '...'],
                       list(spec[1:-1]) if spec[0] not in ('list', 'map', 'optional') else spec[0])
        ctx.evals()
    if isinstance(doc, dict):
        extra = [k for k in doc if k not in tree]
        sge = dict(part='reactor', where=(path[0] if path else 'top'), units=ukind)
        if any(k == 'dict-reused' for k in sel.values()):
            sge['history'] = 'second write with the same generic dictionaries'
        ok &= ctx.true(C_R_EXTRA, not extra, sge, case,
                       ['.'.join(path + (e,)) for e in extra], [])
    return bool(ok)


def _r_leaves(tree):
    for v in tree.values():
        if isinstance(v, dict):
            yield from _r_leaves(v)
        else:
            yield v


def _reactor_eval(case, ctx):
    from pmutt.io.omkm import write_yaml
    sel = dict(R_BASE)
    for p, k in case['delta'].items():
        if k == 'omitted':
            sel.pop(p, None)
        else:
            sel[p] = k
    _reset_defaults()
    try:
        objs = _r_objs(sel.get('phases', 'list'))
        kw, tree, prior = _reactor_call(sel, objs)
        for p, k in sorted(sel.items()):
            if p == 'phases':
                route, counts, order = _ph_counts(k)
                ctx.tag('phases:' + route)
                if max(counts) >= 3:
                    ctx.tag('phases:three or more of one type (%s)' % route)
                if min(counts) == 0:
                    ctx.tag('phases:no phase of some type')
                if order != 'grouped':
                    ctx.tag('phases:list not grouped by type')
            elif p == 'units':
                ctx.tag('%s:%s' % (p, k))
            else:
                ctx.tag('kind:' + {'bool-false': 'bool', 'dict-reused': 'dict-extra'}.get(k, k))
        for p in ('phases', 'units'):
            if p not in sel:
                ctx.tag('%s:%s' % (p, 'omitted' if p == 'phases' else 'none'))
        if any(p not in sel for p in R_PARAMS):
            ctx.tag('kind:omitted')
        if prior:
            # an earlier call with other operating values and the *same* generic dictionaries
            ctx.tag('reactor:second write')
            first = dict(kw)
            for p, v in (('T', 111), ('flow_rate', '9 cm3/s'), ('atol', 1.0e-3), ('end_time', 77), ('multi_T', [1, 2])):
                first[p] = v
            write_yaml(**first)
        plain = {k: copy.deepcopy(v) for k, v in kw.items() if isinstance(v, (list, dict, np.ndarray))
                 and k not in ('phases', 'reactions_SA', 'species_SA')}
        # the caller's phases: the list still holds the same objects in the same order, each saying what it said;
        # a dictionary of phases still holds what the caller put into it
        ph_given = kw.get('phases')
        ph_before = None
        if isinstance(ph_given, list):
            ph_before = (list(ph_given), [(ph.name, copy.deepcopy(ph.initial_state)) for ph in ph_given])
        elif isinstance(ph_given, dict):
            ph_before = copy.deepcopy(ph_given)
        out = tempfile.mkdtemp(prefix='c07_') if case.get('file') else None
        try:
            if out:
                path = os.path.join(out, 'reactor.yaml')
                write_yaml(filename=path, **kw)
                with open(path, newline='') as f:
                    text = f.read()
            else:
                text = write_yaml(**kw)
                again = write_yaml(**kw)
                ctx.trace()
        finally:
            if out:
                shutil.rmtree(out, ignore_errors=True)
        ctx.trace()
        sigc = dict(part='reactor', item="caller's containers",
                    units='none' if sel.get('units', 'omitted') in ('none', 'omitted') else 'given')
        changed = sorted(k for k, v in plain.items() if not _same_plain(v, kw[k]))
        if isinstance(ph_given, list):
            same = len(ph_given) == len(ph_before[0]) and all(a is b for a, b in zip(ph_given, ph_before[0])) and \
                [(ph.name, ph.initial_state) for ph in ph_before[0]] == ph_before[1]
            changed += [] if same else ['phases']
        elif isinstance(ph_given, dict):
            changed += [] if _same_plain(ph_given, ph_before) else ['phases']
        ctx.true(C_R_ALONE, not changed, sigc, case, changed, [])
        if not out:
            ctx.true(C_R_AGAIN, _strip_stamp(again) == _strip_stamp(text), dict(sigc, item='second call'), case,
                     _first_diff(_strip_stamp(text), _strip_stamp(again)), 'identical text')
        probs = ref.yaml_problems(text)
        try:
            doc = ref.load_yaml(text)
        except Exception as e:
            probs.append('does not load: %s' % type(e).__name__)
            doc = None
        if doc is None and not probs and not tree:
            doc = {}
        sigf = dict(part='reactor', item='file',
                    units='none' if sel.get('units', 'omitted') in ('none', 'omitted') else 'given')
        if not ctx.true(C_R_WF, not probs and isinstance(doc, dict), sigf, case, probs, []):
            if not isinstance(doc, dict):
                return
        _r_walk(tree, doc, sel, ctx, case)
    finally:
        _reset_defaults()


def _reactor_deltas(tier):
    coords = {p: [R_BASE.get(p, 'omitted')] + _r_kinds(p) for p in R_ORDER}
    out = []
    for lv in (0, 1, 2):
        out += _deviations(coords, R_ORDER, lv)
    # the family of phase populations (how many of each type, in which order, as list or dictionary), on its own
    # and without a units argument
    fam = _ph_family(tier)
    out += [{'phases': k} for k in fam]
    out += [{'phases': k, 'units': 'none'} for k in fam if k.startswith('list')]
    if tier == 'thorough':
        # triples over the sub-alphabet where the value kinds interact with the unit handling
        sub = {p: coords[p] for p in ('V', 'T', 'P', 'flow_rate', 'multi_P', 'multi_T', 'nodes', 'atol', 'reactor',
                                      'solver', 'phases', 'units', 'end_time', 'step_size')}
        out += _deviations(sub, sorted(sub), 3)
    return out


def _run_reactor(shard, ctx):
    for delta in shard['deltas']:
        case = dict(kind='reactor', delta=delta)
        if shard.get('file'):
            case['file'] = True
        ctx.state(('reactor', sorted(delta.items()), bool(shard.get('file'))))
        ctx.trans(len(delta))
        if delta:
            ctx.nontrivial(('reactor', sorted(delta.items())))
        ctx.run_case(_reactor_eval, case, dict(part='reactor', item='write'))
        if len(delta) == 2:
            ctx.sample(case, limit=1)


# =============================================================================================
# E - big: a generated model large enough for every wrapped CTI field to wrap, names with characters at
#     which generic text tools break or split, and a ladder of barriers (same evaluation as B2)
# =============================================================================================
# the character put inside every species / phase / BEP name and every reaction / interaction id prefix
BIG_SEPS = {'plain': '', 'hyphen': '-', 'slash': '/', 'dot': '.', 'colon': ':', 'plus': '+'}
BIG_SHIFTS = list(range(1, 14))        # length of the first name of every wrapped list: each later name reaches the
                                       # end of a line in turn (names are 9-15 characters long)
BIG_EL = ['Pt', 'Pd', 'Rh', 'Ir', 'Ni', 'Co', 'Fe', 'Cu', 'Ag', 'Au', 'Zn', 'Mo', 'W', 'Re', 'Os', 'Mn', 'Cr', 'V',
          'Ti', 'Zr', 'Nb', 'Sn', 'Ga', 'In']
BIG_BASE = dict(big=True, names='hyphen', shift=1, extra=0, build='direct', sites=1, li=3, bep=12)
BIG_SDEN = 2.4983e-09
# the ladder: (reaction enthalpy) x (where the transition state lies), in K (h/R); BEP intercepts in kcal/mol
LADDER = [(th, pos) for th in ('exo', 'endo') for pos in ('below', 'between', 'above')]
LADDER_FIN = {'exo': -6000., 'endo': 6000.}
LADDER_TS = {('exo', 'below'): -9000., ('exo', 'between'): -3000., ('exo', 'above'): 3000.,
             ('endo', 'below'): -3000., ('endo', 'between'): 3000., ('endo', 'above'): 9000.}
LADDER_ICPT = {('exo', 'below'): -12., ('exo', 'between'): -2., ('exo', 'above'): 12.,
               ('endo', 'below'): -12., ('endo', 'between'): 0., ('endo', 'above'): 12.}
LADDER_ROUTES = ['ads/H', 'ads/G', 'surf/G']
PLANNED_TAGS += ['ladder:%s:%s:%s:%s' % (r_, th_, pos_, ts_) for r_ in LADDER_ROUTES for th_, pos_ in LADDER
                 for ts_ in ('ts', 'bep')]
PLANNED_TAGS += ['ladder:%s:%s:no-ts' % (r_, th_) for r_ in LADDER_ROUTES for th_ in ('exo', 'endo')]
PLANNED_TAGS += ['names:' + n_ for n_ in BIG_SEPS] + ['rxn:stick-ts', 'rxn:stick-bep', 'big:ids user',
                                                        'wrapped:species', 'wrapped:elements', 'wrapped:beps',
                                                        'wrapped:phases']


def big_tables(cfg):
    """Plain-data tables of the generated model: species rows in file order, reactions, BEPs, interactions,
    phase names.  c is the break character of the style; reaction strings are split at '+' and '=' by
    Reaction.from_string, so participants of reactions carry it only when it is neither of them."""
    c = BIG_SEPS[cfg['names']]
    r = '' if c in ('+', '=') else c
    k0, extra = int(cfg['shift']), int(cfg.get('extra', 0))
    # phase names long enough for the phases="..." field of the interface to wrap
    gas = 'gas%sphase%sover%sthe%scatalyst' % (c, c, c, c) + 'g' * (k0 % 4)
    bulk, terr = 'bulk%sof%sthe%scatalyst%sb' % (c, c, c, c), 'terrace%sc' % c
    rows, order = {}, []

    def put(name, el, ph, cp, h, s, ns):
        if name in rows:
            raise ValueError('harness: name %s generated twice' % name)
        rows[name] = (el, ph, cp, h, s, ns)
        order.append(name)
    CHO = {'C': 1, 'H': 2, 'O': 1}
    n_el = [0]

    def plus_el(el):
        out = dict(el)
        out[BIG_EL[n_el[0] % len(BIG_EL)]] = 1
        n_el[0] += 1
        return out
    # gas: the pad, three reactants, inert species
    put('X' * k0, {'He': 1}, gas, 2.5, 0., 15.1, None)
    G = ['cis%sHCOH%s' % (r, x) for x in 'abc']
    for j, n in enumerate(G):
        put(n, CHO, gas, 3.5, 0. + 11. * j, 20.0 + 0.05 * j, None)
    for j in range(1 + extra):
        put('iso%sC4H9%s%d' % (c, c, j), {'C': 4, 'H': 9}, gas, 4.1, -800. - 9. * j, 31. + 0.1 * j, None)
    put('Pt%sbulk(B)' % r, {'Ru': 1}, bulk, 3.0, 0., 3.4, None)
    # terrace: the pad, the site, the adsorption ladder, the surface ladder, spectators
    site = 'Pt%sfcc(T)' % r
    put('Y' * k0, plus_el({'H': 1}), terr, 2.1, -2500., 1.7, 1)
    put(site, {'Ru': 1}, terr, 2.0, 0., 2.0, 1)
    XP = ['trans%sCOOH%d(T)' % (r, n + 1) for n in range(8)]          # products of the adsorption steps
    XT = ['TS%sads%d(T)' % (r, n + 1) for n in range(6)]
    A = ['n%sC3H7%s(T)' % (r, x) for x in 'abc']                       # reactants of the surface steps
    BP = ['iso%sC3H7%d(T)' % (r, n + 1) for n in range(8)]
    BT = ['TS%siso%d(T)' % (r, n + 1) for n in range(6)]
    fin = [LADDER_FIN[th] + 37. * n for n, (th, pos) in enumerate(LADDER)] + [LADDER_FIN['exo'] - 500., LADDER_FIN['endo'] + 500.]
    tsh = [LADDER_TS[lp] + 53. * n for n, lp in enumerate(LADDER)]
    for n, name in enumerate(XP):
        put(name, plus_el(CHO), terr, 2.5, fin[n], 18.6 - 1.0 + 0.12 * n, 1)
    for n, name in enumerate(XT):
        put(name, plus_el(dict(CHO, Ru=1)), terr, 5.5, tsh[n], 22.0 + 0.8 - 0.1 * n, 2)
    for j, name in enumerate(A):
        put(name, {'C': 3, 'H': 7}, terr, 2.6, -2000. + 13. * j, 3.0 + 0.05 * j, 1)
    for n, name in enumerate(BP):
        put(name, plus_el({'C': 3, 'H': 7}), terr, 2.6, -2000. + fin[n], 3.0 + 0.9 - 0.15 * n, 1)
    for n, name in enumerate(BT):
        put(name, plus_el({'C': 3, 'H': 7}), terr, 2.6, -2000. + tsh[n], 3.0 - 0.7 + 0.11 * n, 1)
    for j in range(1 + extra):
        put('spect%sator%d(T)' % (c, j), plus_el({'O': 1}), terr, 2.2, -1500. - 7. * j, 2.2, 1)
    # BEPs (one per BEP rung; the first name is the pad of the beps field) and reactions
    beps, rxns = {}, []
    bulk_sp = 'Pt%sbulk(B)' % r
    for n, lp in enumerate(LADDER):
        for fam in ('ads', 'surf'):
            key = 'bep%s%s%d' % (r, 'CO' if fam == 'ads' else 'CH', n + 1)
            beps[key] = dict(slope=0.5 + 0.01 * n + (0.002 if fam == 'surf' else 0.), intercept=LADDER_ICPT[lp] + 0.1 * n
                             + (0.05 if fam == 'surf' else 0.), direction='cleavage' if n % 2 == 0 else 'synthesis',
                             descriptor='delta_H')
    bep_names = dict(zip(beps, ['Z' * k0] + list(beps)[1:]))
    for n, lp in enumerate(LADDER):
        d = 'cleavage' if n % 2 == 0 else 'synthesis'
        rxns.append(('stick-ts', '%s + %s = %s = %s + %s' % (G[0], site, XT[n], XP[n], bulk_sp),
                     dict(is_adsorption=True, beta=0, sticking_coeff=0.5 - 0.03 * n)))
        rxns.append(('ts', '%s = %s = %s' % (A[0], BT[n], BP[n]), {}))
        rxns.append(('stick-bep', '%s + %s = bep%sCO%d = %s + %s' % (G[1], site, r, n + 1, XP[n], bulk_sp),
                     dict(is_adsorption=True, beta=0.25, sticking_coeff=0.9 - 0.04 * n, direction=d)))
        rxns.append(('bep', '%s = bep%sCH%d = %s' % (A[1], r, n + 1, BP[n]), dict(direction=d)))
    for j in (6, 7):
        rxns.append(('stick', '%s + %s = %s + %s' % (G[2], site, XP[j], bulk_sp),
                     dict(is_adsorption=True, beta=0, sticking_coeff=0.2 + 0.01 * j)))
        rxns.append(('plain', '%s = %s' % (A[2], BP[j]), {}))
    lis = [dict(name_i=XP[0], name_j=XP[0], intervals=[0., 0.25], slopes=[-31.5, -7.25]),
           dict(name_i=XP[1], name_j=BP[2], intervals=[0.], slopes=[-12.75]),
           dict(name_i=BP[3], name_j=XP[0], intervals=[0., 0.5, 0.75], slopes=[-9.5, -2.0, 3.25])]
    user = cfg.get('ids') == 'user'
    return dict(sep=c, gas=gas, bulk=bulk, terrace=terr, rows=rows, order=order, beps=beps, bep_names=bep_names,
                rxns=rxns, lis=lis,
                rxn_ids=['rx%sa_%04d' % (c, 10 + i) if user else None for i in range(len(rxns))],
                li_names=['li%sx_%04d' % (c, 4 + i) if user else None for i in range(len(lis))])


def build_big(cfg):
    """The generated model as a Model with the attributes build_model gives (phases built directly)."""
    from pmutt import pmutt_list_to_dict
    from pmutt.mixture.cov import PiecewiseCovEffect
    from pmutt.omkm import phase as omkm_phase
    from pmutt.omkm.reaction import BEP, SurfaceReaction
    t = big_tables(cfg)
    m = Model()
    m.cfg = cfg
    XHOME.clear()
    XHOME.update({n: t['rows'][n][1] for n in t['order']})
    m.species = []
    for i, n in enumerate(t['order']):
        kind = t['rows'][n][1]
        cls = cfg['gas'] if kind == t['gas'] else cfg['surf']
        m.species.append(make_species(n, cls, row=t['rows'][n], k=1.0 + 0.01 * i))
    m.bep_keys = list(t['beps'])
    m.beps = [BEP(name=t['bep_names'][key], **kw) for key, kw in t['beps'].items()]
    d = pmutt_list_to_dict(m.species)
    for key, b in zip(m.bep_keys, m.beps):
        d[key] = b
    m.lookup = d
    m.rxn_tags = [x[0] for x in t['rxns']]
    m.reactions = [SurfaceReaction.from_string(s, d, id=i, **kw) for (tag, s, kw), i in zip(t['rxns'], t['rxn_ids'])]
    m.interactions = [PiecewiseCovEffect(name=nm, **copy.deepcopy(kw)) for kw, nm in zip(t['lis'], t['li_names'])]
    m.units = make_units(cfg['units'])
    m.phase_names = [t['gas'], t['bulk'], t['terrace']]
    m.home = dict(XHOME)
    m.members = {pn: [n for n in t['order'] if m.home[n] == pn] for pn in m.phase_names}
    m.phase_kind = {t['gas']: 'ideal_gas', t['bulk']: 'stoichiometric_solid', t['terrace']: 'interacting_interface'}
    m.sden = {t['terrace']: BIG_SDEN}
    m.density = DENSITY
    by = {s.name: s for s in m.species}
    m.phases = [omkm_phase.IdealGas(name=t['gas'], species=[by[n] for n in m.members[t['gas']]]),
                omkm_phase.StoichSolid(name=t['bulk'], species=[by[n] for n in m.members[t['bulk']]], density=DENSITY),
                omkm_phase.InteractingInterface(name=t['terrace'], species=[by[n] for n in m.members[t['terrace']]],
                                                site_density=BIG_SDEN, phases=[t['gas'], t['bulk']],
                                                reactions=list(m.reactions), interactions=list(m.interactions))]
    return m


def _wrapped_fields(text):
    """Which triple-quoted fields of the CTI text run over more than one line (for the tags only)."""
    out = set()
    for mt in re.finditer(r'(\w+)\s*=\s*"""(.*?)"""', text, flags=re.S):
        if '\n' in mt.group(2):
            out.add(mt.group(1))
    return out


def _ladder_tags(m2, req, ctx):
    """Which rung of the ladder every step of the model stands on at the requested T, P (for the planned tags:
    the alphabet contains adsorption and other steps whose transition state lies below, between and above the
    two ends, for endothermic and exothermic steps, in the H and in the G route)."""
    parts = _species_route(m2, req['T'], req['P']).parts
    for r_ in m2.reactions:
        if r_.Ea is not None:
            continue
        if r_.is_adsorption:
            which = {'get_G_act': 'G', 'get_H_act': 'H'}[req['ads_act']]
            route = 'ads/' + which
        else:
            which, route = 'G', 'surf/G'
        d_fin, d_ts = parts(r_, which)
        th = 'exo' if d_fin < 0 else 'endo'
        if d_ts is None:
            ctx.tag('ladder:%s:%s:no-ts' % (route, th))
            continue
        lo, hi = min(0., d_fin), max(0., d_fin)
        pos = 'below' if d_ts < lo else ('above' if d_ts > hi else 'between')
        kind = 'bep' if any(s is b for s in r_.transition_state for b in m2.beps) else 'ts'
        ctx.tag('ladder:%s:%s:%s:%s' % (route, th, pos, kind))


def _big_deltas(tier):
    """quick: every name style x every shift (hyphen = base style); the ladder under every request
    (adsorption method x T x P x units); polynomial classes, user ids, Motz-Wise, pairs with the styles.
    thorough: both writers for every shift, and the request product for every style.  (`extra` adds inert species per
    phase; it is not enumerated: the base model has the 40 species the quantifier of the property goes up to.)"""
    q = tier == 'quick'
    out = [{}]
    for nm in BIG_SEPS:
        for k in BIG_SHIFTS:
            d = {}
            if nm != BIG_BASE['names']:
                d['names'] = nm
            if k != BIG_BASE['shift']:
                d['shift'] = k
            if d:
                out.append(d)
    reqs = []
    for aa in COORDS['ads_act']:
        for T in COORDS['T']:
            for P in COORDS['P']:
                for u in ('ex', 'si', 'default'):
                    d = {}
                    if aa != DEF_CFG['ads_act']:
                        d['ads_act'] = aa
                    if T != DEF_CFG['T']:
                        d['T'] = T
                    if P != DEF_CFG['P']:
                        d['P'] = P
                    if u != DEF_CFG['units']:
                        d['units'] = u
                    if d:
                        reqs.append(d)
    out += reqs
    singles = [dict(cls='nasa9'), dict(cls='shomate'), dict(ids='user'), dict(motz=True)]
    out += singles
    for nm in BIG_SEPS:
        if nm == BIG_BASE['names']:
            continue
        out += [dict(s_, names=nm) for s_ in singles[2:]]
        out.append(dict(names=nm, ads_act='get_G_act', units='si'))
    out += [dict(s_, ads_act='get_G_act') for s_ in singles[:3]]
    if not q:
        for nm in BIG_SEPS:
            if nm != BIG_BASE['names']:
                out += [dict(d, names=nm) for d in reqs]
        out = [dict(t_) for t_ in sorted({tuple(sorted(d.items(), key=str)) for d in out}, key=str)]
    return out


def _run_big(shard, ctx):
    for delta in shard['deltas']:
        # only the CTI writer lays the lists out itself: in the quick tier the YAML file is written for two of the
        # shifts of a style (and for every other configuration)
        cti_only = shard.get('tier', 'quick') == 'quick' and delta.get('shift', 1) not in (1, 7)
        for writer in (('cti',) if cti_only else ('yaml', 'cti')):
            case = dict(kind='big', writer=writer, delta=delta)
            key = ('big', writer, sorted(delta.items(), key=str))
            ctx.state(key)
            ctx.trans(len(delta))
            ctx.nontrivial(key)
            ctx.run_case(_thermo_eval, case, dict(part='big_yaml' if writer == 'yaml' else 'big_cti', item='write'))
            if len(delta) == 2:
                ctx.sample(case, limit=1)


# =============================================================================================
# runner interface
# =============================================================================================
def bounds(tier):
    q = tier == 'quick'
    return dict(
        phases=dict(setups=len(PHASE_SETUPS), pool=POOL, ops='append/extend/remove/pop/clear/set/set-none per phase',
                    depth_2_phases=3 if q else 4, depth_3_phases=2 if q else 3),
        reactor=dict(parameters=len(R_ORDER), deviation_level='singles + all pairs' + ('' if q else ' + triples on 14 parameters'),
                     phase_populations=dict(per_type='0-3' if q else '0-4', orders=PH_ORDERS, routes=['list', 'dict'],
                                            kinds=len(_ph_family(tier))),
                     configurations=len(_reactor_deltas(tier))),
        thermo=dict(coordinates={k: COORDS[k] for k in COORD_ORDER}, deviation_level=2 if q else 3,
                    configurations=len(_thermo_deltas(tier)), writers=['write_thermo_yaml', 'write_cti'],
                    species=len(ORDER_T) + len(ORDER_S), reactions='8-11', interactions='0-3', beps='0-2'),
        histories=dict(ops=HIST_OPS, inits=HIST_INITS, ops2=HIST_OPS2, inits2=HIST_INITS2, depth=3 if q else 4,
                       ops3=HIST_OPS3, requests=HIST_REQS, inits3=HIST_INITS3, depth3=2 if q else 3),
        moves=dict(base=MOVE_BASE, moves=[[g, a, b] for g, a, b in MOVES], orders=MOVE_ORDERS, add=MOVE_ADD,
                   remove=MOVE_REM, other_models=MOVE_CFGS, histories=len(_move_histories(tier)),
                   writers=['write_thermo_yaml', 'write_cti']),
        forms=dict(base=FORM_BASE, coordinates={k: FORM_COORDS[k] for k in FORM_ORDER}, families=FORM_FAMILY,
                   deviation_level=('singles + pairs inside a family and with units / TP_form / units_arg' if q else
                                    'singles + all pairs + triples inside R and inside S+units'),
                   configurations=len(_form_deltas(tier)), writers=['write_thermo_yaml', 'write_cti']),
        big=dict(base=BIG_BASE, name_styles=BIG_SEPS, shifts=BIG_SHIFTS, ladder=[list(l) for l in LADDER],
                 ladder_routes=LADDER_ROUTES, species=40, reactions=28, beps=12, interactions=3,
                 configurations=len(_big_deltas(tier)), writers=['write_thermo_yaml', 'write_cti']))


def _chunks(items, n):
    return [items[i::n] for i in range(n) if items[i::n]]


def shards(tier):
    q = tier == 'quick'
    out = []
    for i, (via, pcls, specs) in enumerate(PHASE_SETUPS):
        depth = (3 if q else 4) if len(specs) == 2 else (2 if q else 3)
        out.append(dict(kind='phases', idx=i, depth=depth,
                        setup=dict(via=via, pool_cls=pcls, phases=[[c, n, l] for c, n, l in specs])))
    rd = _reactor_deltas(tier)
    for ch in _chunks(rd, 8 if q else 24):
        out.append(dict(kind='reactor', deltas=ch))
    out.append(dict(kind='reactor', file=True, deltas=[d for d in rd if len(d) <= 1]))
    td = _thermo_deltas(tier)
    for ch in _chunks(td, 16 if q else 48):
        out.append(dict(kind='thermo', deltas=ch))
    for init in HIST_INITS:
        for first in HIST_OPS:
            out.append(dict(kind='hist', init=init, first=first, depth=3 if q else 4))
    for init in HIST_INITS2:
        for first in HIST_OPS2:
            out.append(dict(kind='hist', init=init, first=first, depth=3 if q else 4, ops=HIST_OPS2))
    for init in HIST_INITS3:
        for first in HIST_OPS3:
            out.append(dict(kind='hist', init=init, first=first, depth=2 if q else 3, ops=HIST_OPS3))
    for ch in _chunks(_move_histories(tier), 16 if q else 32):
        out.append(dict(kind='moves', histories=[[d, mv] for d, mv in ch]))
    fd = _form_deltas(tier)
    for ch in _chunks(fd, 16 if q else 48):
        out.append(dict(kind='forms', deltas=ch))
    for ch in _chunks(_big_deltas(tier), 16):
        out.append(dict(kind='big', deltas=ch, tier=tier))
    return out


def run_shard(shard, ctx):
    _reset_defaults()
    {'phases': _run_phases, 'reactor': _run_reactor, 'thermo': _run_thermo, 'hist': _run_hist,
     'forms': _run_forms, 'moves': _run_moves, 'big': _run_big}[shard['kind']](shard, ctx)


def check_case(case, ctx):
    kind = case['kind']
    if kind == 'phases':
        case = dict(case)
        case['setup'] = dict(case['setup'])
        _ph_replay(case, ctx, check_all=True)
    elif kind == 'reactor':
        _reactor_eval(case, ctx)
    elif kind in ('thermo', 'forms', 'big'):
        _thermo_eval(case, ctx)
    elif kind == 'hist':
        _hist_eval(case, ctx)
    elif kind == 'moves':
        _moves_eval(case, ctx)
    else:
        raise ValueError(kind)
