"""C13 - pressure and coverage corrections are added exactly once per attached model.

Shape A: explicit-state BFS over histories of a real empirical species.

    root      Nasa / Nasa9 / Shomate(name='A(S)', phase, add_gas_P_adj, misc_models=<user's list object>)
    ops       to_dict -> from_dict | JSON encode/decode | copy.deepcopy |
              construct a second species (gas / surface) from the *same list object* the user passed to the root
    state     the current species + the user's list object; canonical key = class, phase, to_dict() image of the
              species, kinds found in the user's list; every history is replayed from scratch on the real classes

In every state (= after every transition) a reference model of the history says which correction
models must be attached (the user's models, in any order, plus exactly one pressure adjustment for an
enabled gas species, none otherwise) and every dimensionless getter is compared with

    bare polynomial (textbook form, pmc.ref.empirical_ref) + sum over that reference list of the model's
    closed-form contribution at the same (T, P, coverages)

for scalar and array temperatures; S(P) - S(1 bar) = -ln(P/bar) for an enabled gas and 0 otherwise;
array = scalar-by-scalar.

Routing family (added after the seeded changes of wave 4): one species with coverage effects of 1-3 adsorbates
whose names are related (one a suffix / prefix / infix / other-case spelling of another), called with every way
of giving the coverages: top-level `x` (default of every model), `<name>_kwargs` dictionaries for every subset of
the attached models in every key order, a dictionary of an absent (related-named) species, an empty dictionary,
explicit zero / integer coverages.  Oracle: model j is evaluated at its own dictionary's x, else at the top-level
x, else at 0 - closed forms, nothing from pmutt's routing helper.

Duplicates family (added after the seeded changes of wave 5): the same BFS, clauses and oracle, from roots whose user
list holds *repeated* models - two or three models of one kind that are separate but equal objects (equal through
to_dict()), the very same object attached more than once, or models that differ in a single parameter (one slope, one
constant) - adjacent or separated by another model, next to an explicit pressure adjustment or not.  "Every attached
model" is every element of the list: N entries contribute N times, before and after every reload / copy / second
construction from the same list object.
"""
import copy
import itertools
import json
import math

import numpy as np

from pmc.engine import core
from pmc.ref import empirical_ref as ref

ID = 'C13'
RULE = ('BFS over histories root-construction x sequence of {dict reload, JSON reload, deepcopy, second species (gas / '
        'surface) built from the same user list}; states de-duplicated on (class, phase, to_dict image, kinds in the '
        'user list); a state is non-trivial when at least one correction model is attached or expected; routing '
        'family: full product class x phase {s, g} x ordered list of 1-2 (thorough 1-3) coverage models out of 6 '
        'related adsorbate names x subset of the attached models that get their own <name>_kwargs x at most one '
        'dictionary of an absent species x every order of the keys x top-level x {absent, 0.35; thorough also int 1, '
        'and x listed after the dictionaries} x {all dictionaries filled, last one empty}; duplicates family: the same '
        'BFS from roots class x (phase, flag) {g, S; thorough also g disabled, None} x every list of the duplicates '
        'alphabet (pairs and triples of one kind, near-equal pairs, a repeated pair with a third model in every '
        'position, with an explicit pressure adjustment in every position; thorough also two interleaved pairs) x '
        '{separate equal objects, the same object}')
ASSUMPTIONS = [
    'correction models: GasPressureAdj, two PiecewiseCovEffect (coverage of the species itself and of a second species), '
    'one ConstantMode; every ordered list of at most 2 (quick) / 3 (thorough) distinct models, plus None and []',
    'an explicit GasPressureAdj in the user list is only used where the statement is unambiguous: gas phase, adjustment '
    'not disabled ("pressure adjustment already present or not")',
    'the reload clauses assume the JSON plumbing repaired under C11 (fixes/C11/02,05,06,17: registry, Nasa9 key, '
    'SingleNasa9.from_dict, element-wise decoding of misc_models)',
    'temperatures 500 K, [500], [300, 500, 1200], 50 points 250-1900 K; P in {1e-3, 1, 100} bar; coverages in {0, 0.3, 1}',
    'routing family: adsorbate names O, CO, CO2, co, O(S), CO(S) (suffix, prefix, infix and case relations); one fixed '
    'coverage per name (float, int 1, explicit 0.0); T = 500 K and [1200, 300, 500]; P = 0.02 bar at the top level; '
    'documented reading of the conditions: top-level keywords are the default of every attached model, '
    '<name_j>_kwargs overrides them for the model of species j only, dictionaries of other species are ignored',
    'duplicates family: "every attached model" = every element of misc_models; two entries that are equal (or the same '
    'object listed twice) are two attached models and contribute twice; a list with two explicit GasPressureAdj is '
    'not explored (ambiguous with "exactly one pressure adjustment"); extra kinds A2 (coverage model of the species '
    'itself that differs from A in one slope, same model name) and K2 (ConstantMode that differs from K in H only)',
]
EXPLANATION = ('explicit-state exploration of the implementation; each history is executed on the real classes and '
               'judged against a reference list of attached models and closed-form contributions')

CLASSES = ['Nasa', 'Nasa9', 'Shomate']
PHASES = ['g', 'gas', 'G', 's', 'S', None]
FLAGS = ['default', 'disabled']
KINDS = ['P', 'A', 'B', 'K']
OPS = ['dict', 'json', 'copy', 'second:g', 'second:s']
QUANT = ['CpoR', 'HoRT', 'SoR', 'GoRT']
NAME = 'A(S)'
T_SCALAR = 500.0
T_SHAPES = {
    'scalar': T_SCALAR,
    'len1': [500.0],
    'len3': [300.0, 500.0, 1200.0],
    'len50': [250.0 + 1650.0 * i / 49.0 for i in range(50)],
}
PRESSURES = [1e-3, 1.0, 100.0]
COVERAGES = [(0.0, 1.0), (0.3, 0.0), (1.0, 0.3)]        # (coverage of A(S), coverage of B(S))
COV = {'A': dict(name_j='A(S)', intervals=[0.0, 0.5], slopes=[-10.0, 25.0], name='covA'),
       'B': dict(name_j='B(S)', intervals=[0.0, 0.25, 0.75], slopes=[5.0, -7.0, 3.0], name='covB'),
       # duplicates family only: A with one other slope (same species, same intervals, same model name)
       'A2': dict(name_j='A(S)', intervals=[0.0, 0.5], slopes=[-10.0, 20.0], name='covA')}
CONST = dict(Cp=1.2e-5, H=0.05, S=2.5e-5)               # eV/K, eV, eV/K
CONST2 = dict(Cp=1.2e-5, H=0.08, S=2.5e-5)              # duplicates family only: K with another H
CONSTS = {'K': CONST, 'K2': CONST2}

# species polynomials (water-like; same tables as C02)
A7_LOW = [4.19864056E+00, -2.03643410E-03, 6.52040211E-06, -5.48797062E-09, 1.77197817E-12,
          -3.02937267E+04, -8.49032208E-01]
A7_HIGH = [3.03399249E+00, 2.17691804E-03, -1.64072518E-07, -9.70419870E-11, 1.68200992E-14,
           -3.00042971E+04, 4.96677010E+00]
A9_LOW = [-3.947960830E+04, 5.755731020E+02, 9.317826530E-01, 7.222712860E-03, -7.342557370E-06,
          4.955043490E-09, -1.336933246E-12, -3.303974310E+04, 1.724205775E+01]
A9_HIGH = [1.034972096E+06, -2.412698562E+03, 4.646110780E+00, 2.291998307E-03, -6.836830480E-07,
           9.426468930E-11, -4.822380530E-15, -1.384286509E+04, -7.978148510E+00]
ASH = [30.09200, 6.832514, 6.793435, -2.534480, 0.082139, -250.8810, 223.3967, -241.8264]
T_LOW, T_MID, T_HIGH = 200.0, 1000.0, 6000.0

PLANNED_TAGS = ['op:construct', 'op:dict', 'op:json', 'op:copy', 'op:second:g', 'op:second:s',
                'gas:auto-added', 'gas:already-present', 'gas:disabled', 'phase:other', 'phase:None',
                'models:0', 'models:1', 'models:2', 'models:3', 'cov:two-species', 'T:scalar', 'T:len1',
                'T:len3', 'T:len50', 'second:after-gas-root', 'list:None', 'list:empty',
                'route:suffix-names', 'route:prefix-names', 'route:case-names', 'route:infix-names',
                'route:top-level-x-only', 'route:top-level-x-and-some-dicts', 'route:dicts-for-all',
                'route:dicts-for-some', 'route:no-coverage-given', 'route:absent-species-dict', 'route:empty-dict',
                'route:int-x', 'route:explicit-zero-x', 'route:keys-in-attachment-order', 'route:keys-in-other-order',
                'route:dict-edited-in-place', 'route:second-species', 'route:gas', 'route:surface',
                'dup:equal-objects', 'dup:same-object', 'dup:near-equal', 'dup:adjacent', 'dup:separated', 'dup:triple',
                'dup:with-pressure-adjustment', 'dup:pressure-adjustment-auto-added', 'dup:surface',
                'dup:after-reload', 'dup:after-copy', 'dup:second-species-from-same-list']


def _maxlist(tier):
    return 2 if tier == 'quick' else 3


def _depth(tier):
    return 2 if tier == 'quick' else 3


def bounds(tier):
    return dict(classes=CLASSES, phases=PHASES, add_gas_P_adj=FLAGS, model_kinds=KINDS,
                user_lists='None, [], every ordered list of <= %d distinct kinds' % _maxlist(tier),
                operations=OPS, depth='construction + %d operations' % _depth(tier),
                temperature_shapes={k: (v if k != 'len50' else '50 points 250-1900 K') for k, v in T_SHAPES.items()},
                len50_evaluated='every state' if tier != 'quick' else 'root states',
                pressures=PRESSURES, coverages=COVERAGES,
                conditions='full product P x coverage (50-point arrays: P and coverage varied together)' if tier != 'quick'
                else 'P and coverage varied together (3)',
                routing=dict(names=RNAMES, coverage_per_name=RX, attached_lists=len(_r_lists(tier)),
                             phases=RPHASES, top_level_x=_r_tops(tier), top_level_x_position=_r_toppos(tier),
                             temperatures=[RT_SCALAR, RT_ARRAY], pressure=RP,
                             calls_per_class_and_phase=sum(len(_r_calls(l, tier)) for l in _r_lists(tier))),
                duplicates=dict(kinds=DUP_KINDS + ['P (gas, enabled; at most once)'], sharing=DUP_SHARE,
                                phase_and_flag=[list(pf) for pf in _dup_pf(tier)],
                                lists_per_class={'%s/%s' % pf: len(_dup_lists(pf[0], pf[1], tier)) for pf in _dup_pf(tier)},
                                operations=OPS, depth='construction + 2 operations',
                                temperature_shapes=_dup_shapes(tier, 0) + ['(after an operation: %s)' % _dup_shapes(tier, 1)]))


def _is_gas(phase):
    return phase is not None and phase.lower() in ('g', 'gas')


def _user_lists(phase, flag, tier):
    kinds = list(KINDS)
    if not (_is_gas(phase) and flag == 'default'):
        kinds.remove('P')
    out = [None, []]
    for n in range(1, _maxlist(tier) + 1):
        out += [list(p) for p in itertools.permutations(kinds, n)]
    return out


def shards(tier):
    out = []
    for cls in CLASSES:
        for phase in PHASES:
            for flag in FLAGS:
                lists = _user_lists(phase, flag, tier)
                nparts = (len(lists) + 9) // 10
                for part in range(nparts):
                    out.append(dict(cls=cls, phase=phase, flag=flag, part=part, nparts=nparts, tier=tier))
    for cls in CLASSES:
        for phase in RPHASES:
            for part in range(R_PARTS):
                out.append(dict(family='routing', cls=cls, phase=phase, part=part, nparts=R_PARTS, tier=tier))
    for cls in CLASSES:
        for (phase, flag) in _dup_pf(tier):
            nparts = _dup_parts(tier)
            for part in range(nparts):
                out.append(dict(family='dup', cls=cls, phase=phase, flag=flag, part=part, nparts=nparts, tier=tier))
    return out


# ----------------------------------------------------------------------------- real objects
def _mk_model(kind):
    from pmutt.empirical import GasPressureAdj
    from pmutt.mixture.cov import PiecewiseCovEffect
    from pmutt.statmech import ConstantMode
    if kind == 'P':
        return GasPressureAdj()
    if kind in COV:
        d = COV[kind]
        return PiecewiseCovEffect(name_i=NAME, name_j=d['name_j'], intervals=list(d['intervals']),
                                  slopes=list(d['slopes']), name=d['name'])
    if kind in CONSTS:
        return ConstantMode(**CONSTS[kind])
    raise ValueError(kind)


def _kind(m):
    n = type(m).__name__
    if n == 'GasPressureAdj':
        return 'P'
    if n == 'PiecewiseCovEffect':
        if m.name_j != COV['A']['name_j']:
            return 'B'
        try:
            slopes = [float(v) for v in np.ravel(m.slopes)]
        except Exception:
            slopes = None
        return 'A2' if slopes == COV['A2']['slopes'] else 'A'
    if n == 'ConstantMode':
        return 'K2' if getattr(m, 'H', None) == CONST2['H'] else 'K'
    return '?' + n


def _kinds_of(lst):
    if lst is None:
        return None
    return [_kind(m) for m in lst]


def _construct(cls, phase, flag, user_list):
    from pmutt.empirical.nasa import Nasa, Nasa9, SingleNasa9
    from pmutt.empirical.shomate import Shomate
    kw = dict(phase=phase, misc_models=user_list, elements={'H': 2, 'O': 1})
    if flag == 'disabled':
        kw['add_gas_P_adj'] = False
    if cls == 'Nasa':
        return Nasa(name=NAME, T_low=T_LOW, T_mid=T_MID, T_high=T_HIGH, a_low=np.array(A7_LOW),
                    a_high=np.array(A7_HIGH), **kw)
    if cls == 'Nasa9':
        return Nasa9(name=NAME, nasas=[SingleNasa9(T_low=T_LOW, T_high=T_MID, a=np.array(A9_LOW)),
                                       SingleNasa9(T_low=T_MID, T_high=T_HIGH, a=np.array(A9_HIGH))], **kw)
    return Shomate(name=NAME, T_low=T_LOW, T_high=T_HIGH, a=np.array(ASH), **kw)


def _apply(sp, op, world):
    """One operation on the real objects.  world: {'user': the list object the user passed to the root}."""
    from pmutt.io.json import pmuttEncoder, json_to_pmutt
    if op == 'dict':
        return type(sp).from_dict(sp.to_dict())
    if op == 'json':
        return json.loads(json.dumps(sp, cls=pmuttEncoder), object_hook=json_to_pmutt)
    if op == 'copy':
        return copy.deepcopy(sp)
    if op.startswith('second:'):
        return _construct(type(sp).__name__, op.split(':')[1], 'default', world['user'])
    raise ValueError(op)


# ----------------------------------------------------------------------------- reference model
def _ref_construct(cls, phase, flag, user_kinds):
    kinds = list(user_kinds or [])
    enabled = _is_gas(phase) and flag == 'default'
    how = 'n/a'
    if enabled:
        if 'P' in kinds:
            how = 'already-present'
        else:
            kinds.append('P')
            how = 'auto-added'
    return dict(cls=cls, phase=phase, flag=flag, kinds=kinds, enabled=enabled, how=how)


def _ref_apply(state, op, root):
    if op in ('dict', 'json', 'copy'):
        return dict(state)
    return _ref_construct(state['cls'], op.split(':')[1], 'default', root['user'])


def _cov_energy(kind, x):
    """Continuous piecewise-linear interaction energy (kcal/mol) with f(0) = 0."""
    iv, sl = COV[kind]['intervals'], COV[kind]['slopes']
    tot = 0.0
    for k in range(len(iv)):
        hi = iv[k + 1] if k + 1 < len(iv) else float('inf')
        ov = max(0.0, min(hi, x) - iv[k])
        tot += sl[k] * ov
    return tot


def _contribution(kind, T, P, xa, xb):
    """(CpoR, HoRT, SoR) of one attached model at the conditions (closed forms)."""
    from pmutt import constants as c
    if kind == 'P':
        return 0.0, 0.0, -math.log(P)
    if kind in COV:
        x = xa if COV[kind]['name_j'] == NAME else xb
        return 0.0, _cov_energy(kind, x) / (c.R('kcal/mol/K') * T), 0.0
    if kind in CONSTS:
        R = c.R('eV/K')
        k = CONSTS[kind]
        return k['Cp'] / R, k['H'] / R / T, k['S'] / R
    raise ValueError(kind)


def _bare(cls, T):
    from pmutt import constants as c
    if cls == 'Nasa':
        t = ref.nasa7_terms(A7_HIGH if T >= T_MID else A7_LOW, T)
    elif cls == 'Nasa9':
        t = ref.nasa9_terms(A9_HIGH if T > T_MID else A9_LOW, T)
    else:
        t = ref.shomate_terms(ASH, T, c.R('J/mol/K'))
    return ref.values(t)


def _expected(state, T, P, xa, xb):
    """{quantity: (value, round-off scale)} of the species in reference state `state`."""
    b = _bare(state['cls'], T)
    cp, h, s = b['CpoR'][0], b['HoRT'][0], b['SoR'][0]
    scp, sh, ss = b['CpoR'][1], b['HoRT'][1], b['SoR'][1]
    for k in state['kinds']:
        dcp, dh, ds = _contribution(k, T, P, xa, xb)
        cp, h, s = cp + dcp, h + dh, s + ds
        scp, sh, ss = scp + abs(dcp), sh + abs(dh), ss + abs(ds)
    return {'CpoR': (cp, scp + 1.0), 'HoRT': (h, sh + 1.0), 'SoR': (s, ss + 1.0),
            'GoRT': (h - s, sh + ss + 1.0)}


# ----------------------------------------------------------------------------- evaluation of one state
def _conditions(tier, shape='scalar'):
    if tier == 'quick' or shape == 'len50':
        return [(P, xa, xb) for P, (xa, xb) in zip(PRESSURES, COVERAGES)]
    return [(P, xa, xb) for P in PRESSURES for (xa, xb) in COVERAGES]


def _kwargs(P, xa, xb):
    return {'P': P, 'A(S)_kwargs': {'x': xa}, 'B(S)_kwargs': {'x': xb}}


def _nlabel(n):
    return str(n) if n < 2 else '2+'


def _check_state(sp, state, world, case, ctx, op, shapes, tier):
    """All clauses in one state.  True when the state is healthy."""
    phase_cls = 'gas' if _is_gas(state['phase']) else ('none' if state['phase'] is None else 'other')
    sig0 = {'cls': state['cls'], 'phase': phase_cls, 'flag': state['flag'], 'op': op.split(':')[0],
            'n': _nlabel(len(state['kinds']))}
    sig0.update(_dup_sig(case['root']))
    ok = True
    obs_kinds = _kinds_of(sp.misc_models) or []
    ok &= ctx.equal('attached models are the user\'s models plus one pressure adjustment for an enabled gas species',
                    sorted(obs_kinds), sorted(state['kinds']), dict(sig0, getter='misc_models'), case)
    ok &= ctx.equal('a gas species carries exactly one pressure adjustment unless disabled, other phases none',
                    obs_kinds.count('P'), 1 if state['enabled'] else 0, dict(sig0, getter='misc_models'), case)
    ctx.tag('models:%d' % min(len(state['kinds']), 3))
    if _is_gas(state['phase']):
        ctx.tag('gas:' + (state['how'] if state['enabled'] else 'disabled'))
    else:
        ctx.tag('phase:None' if state['phase'] is None else 'phase:other')
    if 'A' in state['kinds'] and 'B' in state['kinds']:
        ctx.tag('cov:two-species')
    for shape in shapes:
        Ts = T_SHAPES[shape]
        ctx.tag('T:' + shape)
        scalar = shape == 'scalar'
        Tlist = [Ts] if scalar else list(Ts)
        Targ = Ts if scalar else np.array(Ts)
        sig1 = dict(sig0, T='scalar' if scalar else 'array')
        for (P, xa, xb) in _conditions(tier, shape):
            kw = _kwargs(P, xa, xb)
            exp = [_expected(state, T, P, xa, xb) for T in Tlist]
            got = {}
            for q in QUANT:
                sig = dict(sig1, getter='get_' + q)
                v = getattr(sp, 'get_' + q)(T=Targ, **kw)
                ctx.evals()
                if not ctx.true('N temperatures give N values', np.size(v) == len(Tlist), sig, case,
                                list(np.shape(v)), len(Tlist)):
                    ok = False
                    continue
                v = np.ravel(np.asarray(v, dtype=float))
                got[q] = v
                ok &= ctx.close('value = bare polynomial + sum of every attached model\'s contribution', v,
                                [e[q][0] for e in exp], sig, case, rtol=1e-10, atol=0.0,
                                scale=np.array([e[q][1] for e in exp]))
                if not scalar:
                    each = [float(np.ravel(getattr(sp, 'get_' + q)(T=T, **kw))[0]) for T in Tlist]
                    ctx.evals(len(Tlist))
                    ok &= ctx.close('array of temperatures = scalar-by-scalar evaluation', v, each, sig, case,
                                    rtol=1e-12, atol=0.0, scale=np.array([e[q][1] for e in exp]))
            if P != 1.0 and 'SoR' in got and 'GoRT' in got:
                kw1 = _kwargs(1.0, xa, xb)
                s1 = np.ravel(np.asarray(sp.get_SoR(T=Targ, **kw1), dtype=float))
                g1 = np.ravel(np.asarray(sp.get_GoRT(T=Targ, **kw1), dtype=float))
                ctx.evals(2)
                shift = -math.log(P) if state['enabled'] else 0.0
                sc = np.array([e['GoRT'][1] for e in exp])
                ok &= ctx.close('S(P) - S(1 bar) = -ln(P/bar) for an enabled gas species, 0 otherwise',
                                got['SoR'] - s1, [shift] * len(Tlist), dict(sig1, getter='get_SoR'), case,
                                rtol=1e-10, atol=0.0, scale=sc)
                ok &= ctx.close('G(P) - G(1 bar) = +ln(P/bar) for an enabled gas species, 0 otherwise',
                                got['GoRT'] - g1, [-shift] * len(Tlist), dict(sig1, getter='get_GoRT'), case,
                                rtol=1e-10, atol=0.0, scale=sc)
    return bool(ok)


# ----------------------------------------------------------------------------- histories
def _shapes_for(tier, nops, root=None):
    if root is not None and root.get('family') == 'dup':
        return _dup_shapes(tier, nops)
    if tier == 'quick' and nops > 0:
        return ['scalar', 'len1', 'len3']
    return ['scalar', 'len1', 'len3', 'len50']


def _replay(case, ctx, judge=True):
    """Run the history on the real classes from scratch; judge the final state (and only it)."""
    root, ops, tier = case['root'], case['ops'], case['tier']
    user = _build_user(root)
    world = dict(user=user)
    held = None if user is None else list(user)
    images = None if user is None else [core.dumps(m.to_dict()) for m in user]
    sp = _construct(root['cls'], root['phase'], root['flag'], user)
    state = _ref_construct(root['cls'], root['phase'], root['flag'], root['user'])
    for op in ops:
        sp = _apply(sp, op, world)
        state = _ref_apply(state, op, root)
    last = ops[-1] if ops else 'construct'
    healthy = True
    if judge:
        ctx.tag('op:' + last)
        if root['user'] is None:
            ctx.tag('list:None')
        elif not root['user']:
            ctx.tag('list:empty')
        if last.startswith('second') and _is_gas(root['phase']):
            ctx.tag('second:after-gas-root')
        if root.get('family') == 'dup':
            _dup_tags(root, state, last, ctx)
        healthy = _check_state(sp, state, world, case, ctx, last, _shapes_for(tier, len(ops), root), tier)
        if user is not None:
            sig = dict(_sig_for(root, ops), getter='misc_models')
            now = [i if (i < len(held) and m is held[i]) else -1 for i, m in enumerate(user)]
            healthy &= ctx.equal("the caller's list still holds the objects the caller put there, in that order", now,
                                 list(range(len(held))), sig, case)
            healthy &= ctx.true("the caller's model objects are left alone (to_dict image as before)",
                                [core.dumps(m.to_dict()) for m in held] == images, sig, case)
    return sp, state, world, healthy


def check_case(case, ctx):
    if case.get('kind') == 'routing':
        return _routing_case(case, ctx)
    _replay(case, ctx)


def _canon(sp, state, world):
    try:
        image = core.dumps(sp.to_dict())
    except Exception as e:          # a broken state has already been reported by its own clauses
        image = 'to_dict raised %s' % type(e).__name__
    return core.dumps([state['cls'], state['phase'], state['flag'], image, _kinds_of(world['user'])])


def _sig_for(root, ops):
    st = _ref_construct(root['cls'], root['phase'], root['flag'], root['user'])
    for op in ops:
        st = _ref_apply(st, op, root)
    last = ops[-1] if ops else 'construct'
    phase_cls = 'gas' if _is_gas(st['phase']) else ('none' if st['phase'] is None else 'other')
    return dict({'cls': st['cls'], 'phase': phase_cls, 'flag': st['flag'], 'op': last.split(':')[0],
                 'n': _nlabel(len(st['kinds']))}, **_dup_sig(root))


def _ops_for(root):
    ops = list(OPS)
    if root['user'] is not None and 'P' in root['user']:
        ops.remove('second:s')          # an explicit GasPressureAdj handed to a surface species: not judged
    return ops


def _visit(root, ops, tier, ctx):
    """Execute and judge one history; returns (canonical key, state) when the final state is healthy."""
    case = dict(root=root, ops=ops, tier=tier)
    res = {}

    def run(case_, ctx_, res=res):
        res['out'] = _replay(case_, ctx_)
    ctx.trace()
    if ops:
        ctx.trans()
    if not ctx.run_case(run, case, _sig_for(root, ops)):
        return None
    sp, state, world, healthy = res['out']
    if not healthy:
        return None                                   # violated state: reported, not expanded
    key = _canon(sp, state, world)
    if state['kinds'] or root['user']:
        ctx.nontrivial((key, ops[-1] if ops else 'construct'))
    return key, case


def run_shard(shard, ctx):
    if shard.get('family') == 'routing':
        return _run_routing_shard(shard, ctx)
    tier = shard['tier']
    if shard.get('family') == 'dup':
        lists = _dup_lists(shard['phase'], shard['flag'], tier)[shard['part']::shard['nparts']]
        roots = [dict(cls=shard['cls'], phase=shard['phase'], flag=shard['flag'], user=user, share=share, family='dup')
                 for (user, share) in lists]
        depth = DUP_DEPTH
    else:
        lists = _user_lists(shard['phase'], shard['flag'], tier)[shard['part']::shard['nparts']]
        roots = [dict(cls=shard['cls'], phase=shard['phase'], flag=shard['flag'], user=user) for user in lists]
        depth = _depth(tier)
    for root in roots:
        got = _visit(root, [], tier, ctx)
        if got is None:
            continue
        seen = {got[0]}
        ctx.state(got[0])
        frontier = [[]]
        for d in range(depth):
            nxt = []
            for hist in frontier:
                for op in _ops_for(root):
                    got = _visit(root, hist + [op], tier, ctx)
                    if got is None or got[0] in seen:
                        continue
                    seen.add(got[0])
                    ctx.state(got[0])
                    nxt.append(hist + [op])
                    if d == depth - 1:
                        ctx.sample(got[1], limit=1)
            frontier = nxt


# ----------------------------------------------------------------------------- duplicates family (wave 5)
# The BFS above from roots whose user list holds repeated models.  Reference model and clauses are the ones of the main
# family: the reference list of a history is the multiset of the kinds the user listed (+ one pressure adjustment for an
# enabled gas); every element counts.  share: 'equal' = every entry is an object of its own (entries of one kind are
# equal through to_dict()), 'same' = entries of one kind are one object listed several times, 'near' = the list holds
# no repeated kind, only two kinds that differ in one parameter (A / A2, K / K2).
DUP_KINDS = ['A', 'A2', 'B', 'K', 'K2']
DUP_SHARE = ['equal', 'same']
DUP_NEAR = [('A', 'A2'), ('K', 'K2')]
DUP_BASE = ['A', 'B', 'K']
DUP_DEPTH = 2


def _dup_pf(tier):
    """(phase, add_gas_P_adj setting) of the roots."""
    if tier == 'quick':
        return [('g', 'default'), ('S', 'default')]
    return [('g', 'default'), ('S', 'default'), ('g', 'disabled'), (None, 'default')]


def _dup_parts(tier):
    return 3 if tier == 'quick' else 6


def _dup_shapes(tier, nops):
    if tier == 'quick':
        return ['scalar', 'len3']
    return ['scalar', 'len1', 'len3', 'len50'] if nops == 0 else ['scalar', 'len1', 'len3']


def _dup_lists(phase, flag, tier):
    """[(list of kinds, share)] - every list holds a repeated kind or a near-equal pair."""
    quick = tier == 'quick'
    out = []
    for r in DUP_KINDS:                                          # two of a kind
        out += [([r, r], share) for share in DUP_SHARE]
    for a, b in DUP_NEAR:                                        # two that differ in one parameter, both orders
        out += [([a, b], 'near'), ([b, a], 'near')]
    for i, r in enumerate(DUP_BASE):                             # a repeated pair and a third model in every position
        others = [DUP_BASE[(i + 1) % 3]] if quick else [DUP_BASE[(i + 1) % 3], DUP_BASE[(i + 2) % 3]]
        if not quick and r == 'A':
            others.append('A2')                                  # equal pair next to a near-equal one
        for o in others:
            for pos in range(3):
                lst = [r, r]
                lst.insert(pos, o)
                out += [(lst, share) for share in DUP_SHARE]
    for r in (['A'] if quick else DUP_BASE):                     # three of a kind
        out += [([r, r, r], share) for share in DUP_SHARE]
    if _is_gas(phase) and flag == 'default':                     # explicit pressure adjustment in every position
        for r in (['A'] if quick else DUP_BASE):
            for pos in range(3):
                lst = [r, r]
                lst.insert(pos, 'P')
                out += [(lst, share) for share in DUP_SHARE]
    if not quick:                                                # two interleaved pairs (4 attached models)
        for lst in (['A', 'K', 'A', 'K'], ['A', 'A', 'K', 'K'], ['A', 'K', 'K', 'A']):
            out += [(list(lst), share) for share in DUP_SHARE]
    return out


def _build_user(root):
    """The list object the user passes to the root."""
    if root['user'] is None:
        return None
    if root.get('share') != 'same':
        return [_mk_model(k) for k in root['user']]
    made = {}
    out = []
    for k in root['user']:
        if k not in made:
            made[k] = _mk_model(k)
        out.append(made[k])
    return out


def _dup_sig(root):
    if root.get('family') != 'dup':
        return {}
    return {'family': 'duplicates', 'dup': root['share']}


def _dup_tags(root, state, last, ctx):
    user = root['user']
    rep = [k for k in dict.fromkeys(user) if user.count(k) > 1]
    if rep:
        ctx.tag('dup:equal-objects' if root['share'] == 'equal' else 'dup:same-object')
    if any(a in user and b in user for a, b in DUP_NEAR):
        ctx.tag('dup:near-equal')
    for k in rep:
        idx = [i for i, u in enumerate(user) if u == k]
        if len(idx) >= 3:
            ctx.tag('dup:triple')
        ctx.tag('dup:adjacent' if any(j - i == 1 for i, j in zip(idx, idx[1:])) else 'dup:separated')
    if 'P' in user:
        ctx.tag('dup:with-pressure-adjustment')
    elif state['enabled']:
        ctx.tag('dup:pressure-adjustment-auto-added')
    if not _is_gas(state['phase']):
        ctx.tag('dup:surface')
    if last in ('dict', 'json'):
        ctx.tag('dup:after-reload')
    elif last == 'copy':
        ctx.tag('dup:after-copy')
    elif last.startswith('second'):
        ctx.tag('dup:second-species-from-same-list')


# ----------------------------------------------------------------------------- routing family (wave 4)
# Adsorbate names chosen for their relations: 'O' is a suffix of 'CO', 'O(S)' of 'CO(S)'; 'CO' is a prefix of
# 'CO2' and of 'CO(S)'; 'O' is inside 'CO2'; 'co' is 'CO' in another case.  Each name has its own piecewise
# model and its own coverage, so a model evaluated at another species' coverage changes the value.
RNAMES = ['O', 'CO', 'CO2', 'co', 'O(S)', 'CO(S)']
RX = {'O': 0.1, 'CO': 0.7, 'CO2': 1, 'co': 0.0, 'O(S)': 0.45, 'CO(S)': 0.25}      # int 1 and explicit 0.0 included
RX_EDIT = {'O': 0.9, 'CO': 0.2, 'CO2': 0.5, 'co': 0.65, 'O(S)': 0, 'CO(S)': 0.8}
RPHASES = ['s', 'g']
RT_SCALAR = 500.0
RT_ARRAY = [1200.0, 300.0, 500.0]           # unsorted, both sides of the Nasa / Nasa9 break
RP = 0.02
R_PARTS = 2
R_TOP = 0.35
R_TOP_EDIT = 0.6


def _r_model(name, factor=1.0):
    i = RNAMES.index(name)
    return dict(intervals=[0.0, 0.15 + 0.05 * i, 0.55 + 0.05 * i],
                slopes=[factor * s for s in [(-1) ** i * (4.0 + 1.5 * i), 6.0 - 2.0 * i, 3.0 + i]])


def _pw_energy(intervals, slopes, x):
    """Continuous piecewise-linear energy (kcal/mol), f(0) = 0, slope slopes[k] on [intervals[k], intervals[k+1])."""
    tot = 0.0
    for k in range(len(intervals)):
        hi = intervals[k + 1] if k + 1 < len(intervals) else float('inf')
        tot += slopes[k] * max(0.0, min(hi, float(x)) - intervals[k])
    return tot


def _r_lists(tier):
    out = []
    for n in range(1, (2 if tier == 'quick' else 3) + 1):
        out += [list(p) for p in itertools.permutations(RNAMES, n)]
    return out


def _r_tops(tier):
    return [None, R_TOP] if tier == 'quick' else [None, R_TOP, 1]


def _r_toppos(tier):
    return ['first'] if tier == 'quick' else ['first', 'last']


def _r_calls(models, tier):
    """Every way of giving the coverages to a species with these attached models:
    (keys in call order, top-level x, position of the top-level x, last dictionary empty?)."""
    out = []
    small = len(models) <= 2                 # lists of 3 models (thorough): no absent dictionary, quick's top-level options
    absent = [None] + ([n for n in RNAMES if n not in models] if small else [])
    tops = _r_tops(tier if small else 'quick')
    poss = _r_toppos(tier if small else 'quick')
    for r in range(len(models) + 1):
        for sub in itertools.combinations(models, r):
            for a in absent:
                if a is not None and r > 1 and tier == 'quick':
                    continue                 # quick: an absent species' dictionary next to at most one own dictionary
                names = list(sub) + ([a] if a is not None else [])
                for order in itertools.permutations(names):
                    for top in tops:
                        for pos in (poss if top is not None and names else ['first']):
                            out.append(dict(keys=list(order), top=top, pos=pos, empty=False))
                            # an empty dictionary falls back to the top-level x (quick: only enumerated with one)
                            if names and (top is not None or tier != 'quick' or len(names) == 1):
                                out.append(dict(keys=list(order), top=top, pos=pos, empty=True))
    return out


def _r_kwargs(call, xs=RX):
    """The keyword dictionary of one call (plain data; built afresh by every caller)."""
    kw = {'P': RP}
    if call['top'] is not None and call['pos'] == 'first':
        kw['x'] = call['top']
    for i, name in enumerate(call['keys']):
        last = i == len(call['keys']) - 1
        kw['%s_kwargs' % name] = {} if (call['empty'] and last) else {'x': xs[name]}
    if call['top'] is not None and call['pos'] == 'last':
        kw['x'] = call['top']
    return kw


def _r_effective_x(name, kw):
    """Documented reading: the species' own dictionary overrides the top-level value; default 0."""
    own = kw.get('%s_kwargs' % name)
    if isinstance(own, dict) and 'x' in own:
        return own['x']
    if 'x' in kw:
        return kw['x']
    return 0.0


def _r_expected(cls, phase, models, kw, T, factor=1.0):
    """{quantity: (value, scale)} = bare polynomial + every coverage model at its own coverage (+ -ln P for a gas)."""
    from pmutt import constants as c
    b = _bare(cls, T)
    h, sh = b['HoRT'][0], b['HoRT'][1]
    s, ss = b['SoR'][0], b['SoR'][1]
    for name in models:
        m = _r_model(name, factor)
        dh = _pw_energy(m['intervals'], m['slopes'], _r_effective_x(name, kw)) / (c.R('kcal/mol/K') * T)
        h, sh = h + dh, sh + abs(dh)
    if _is_gas(phase):
        ds = -math.log(kw['P'])
        s, ss = s + ds, ss + abs(ds)
    return {'CpoR': (b['CpoR'][0], b['CpoR'][1] + 1.0), 'HoRT': (h, sh + 1.0), 'SoR': (s, ss + 1.0),
            'GoRT': (h - s, sh + ss + 1.0)}


def _r_build(cls, phase, models, factor=1.0):
    from pmutt.mixture.cov import PiecewiseCovEffect
    lst = []
    for name in models:
        m = _r_model(name, factor)
        lst.append(PiecewiseCovEffect(name_i=NAME, name_j=name, intervals=m['intervals'], slopes=m['slopes'],
                                      name='cov_' + name))
    return _construct(cls, phase, 'default', lst)


def _r_canon(o):
    if isinstance(o, dict):
        return {k: _r_canon(v) for k, v in o.items()}
    if isinstance(o, bool) or o is None or isinstance(o, str):
        return o
    return [type(o).__name__, o]


def _r_relations(models, keys):
    names = list(models) + [k for k in keys if k not in models]
    rel = set()
    for a in names:
        for b in names:
            if a == b:
                continue
            if b.endswith(a):
                rel.add('suffix')
            elif b.startswith(a):
                rel.add('prefix')
            elif a in b:
                rel.add('infix')
            elif a.lower() == b.lower():
                rel.add('case')
    return rel


def _r_sig(case):
    call, models = case['call'], case['models']
    own = [k for k in call['keys'] if k in models]
    return {'cls': case['cls'], 'phase': 'gas' if _is_gas(case['phase']) else 'other', 'family': 'routing',
            'n': _nlabel(len(models)), 'top': 'none' if call['top'] is None else 'x',
            'dicts': 'none' if not own else ('all' if len(own) == len(models) else 'some'),
            'absent': len(own) < len(call['keys'])}


def _routing_case(case, ctx, objs=None):
    """One call (with its repetition and its in-place edit) on a species carrying related-named coverage models.
    objs: (species, second species) already built by the shard for this root; replay builds them afresh."""
    cls, phase, models, call = case['cls'], case['phase'], case['models'], case['call']
    sig0 = _r_sig(case)
    if objs is None:
        objs = (_r_build(cls, phase, models), _r_build(cls, phase, list(reversed(models)), factor=2.0))
    sp, sp2 = objs
    own = [k for k in call['keys'] if k in models]
    # ---- tags
    ctx.tag('route:gas' if _is_gas(phase) else 'route:surface')
    for r in _r_relations(models, call['keys']):
        ctx.tag('route:%s-names' % r)
    if call['top'] is not None:
        ctx.tag('route:top-level-x-only' if not own else 'route:top-level-x-and-some-dicts')
    elif not own:
        ctx.tag('route:no-coverage-given')
    else:
        ctx.tag('route:dicts-for-all' if len(own) == len(models) else 'route:dicts-for-some')
    if len(own) < len(call['keys']):
        ctx.tag('route:absent-species-dict')
    if call['empty']:
        ctx.tag('route:empty-dict')
    if len(own) > 1:
        ctx.tag('route:keys-in-attachment-order' if own == [m for m in models if m in own]
                else 'route:keys-in-other-order')
    kw = _r_kwargs(call)
    for v in [kw.get('x')] + [d.get('x') for d in kw.values() if isinstance(d, dict)]:
        if isinstance(v, int):
            ctx.tag('route:int-x')
        if v == 0 and v is not None:
            ctx.tag('route:explicit-zero-x')
    before = _r_canon(copy.deepcopy(kw))
    clause = "value = bare polynomial + every coverage model at its own species' coverage (own dictionary, else top-level x, else 0)"

    def judge(spx, what, T_arg, Tlist, kwx, quants, exp_models, factor, extra):
        ok = True
        exp = [_r_expected(cls, phase, exp_models, kwx, T, factor) for T in Tlist]
        for q in quants:
            sig = dict(sig0, getter='get_' + q, T='scalar' if np.ndim(T_arg) == 0 else 'array', **extra)
            v = getattr(spx, 'get_' + q)(T=T_arg, **kwx)
            ctx.evals()
            if not ctx.true('N temperatures give N values', np.size(v) == len(Tlist), sig, case,
                            list(np.shape(v)), len(Tlist)):
                ok = False
                continue
            got = np.ravel(np.array(v, dtype=float))
            if isinstance(v, np.ndarray) and v.ndim > 0 and v.flags.writeable:
                v[...] = -777.0                  # results are fresh: scribbling on one may not change the next
            ok &= ctx.close(what, got, [e[q][0] for e in exp], sig, case, rtol=1e-10, atol=0.0,
                            scale=np.array([e[q][1] for e in exp]))
        return ok

    T_arr = np.array(RT_ARRAY)
    # coverage models contribute to H and G only: Cp and S are judged where at most one dictionary is passed
    judge(sp, clause, RT_SCALAR, [RT_SCALAR], kw, QUANT if len(call['keys']) <= 1 else ['HoRT', 'GoRT'], models, 1.0, {})
    judge(sp, clause, T_arr, RT_ARRAY, kw, ['GoRT'] if len(call['keys']) > 1 else ['HoRT', 'GoRT'], models, 1.0, {})
    ctx.equal('caller keyword dictionaries (per-species dictionaries included) unmodified', _r_canon(kw), before,
              dict(sig0, getter='get_X'), case)
    ctx.true('temperature array of the caller unmodified', T_arr.tolist() == RT_ARRAY, dict(sig0, getter='get_X'), case,
             T_arr.tolist(), RT_ARRAY)
    # the same call again, then a second species (other slopes, models attached in the other order)
    judge(sp, 'the same call again gives the same value', RT_SCALAR, [RT_SCALAR], kw, ['HoRT'], models, 1.0,
          {'call': 'again'})
    ctx.tag('route:second-species')
    judge(sp2, clause, RT_SCALAR, [RT_SCALAR], kw, ['HoRT'], models, 2.0, {'species': 'second'})
    # the caller edits the conditions in place; the next call answers for the new content
    edited = False
    for k in call['keys']:
        if 'x' in kw['%s_kwargs' % k]:
            kw['%s_kwargs' % k]['x'] = RX_EDIT[k]
            edited = True
            break
    if not edited and 'x' in kw:
        kw['x'] = R_TOP_EDIT
        edited = True
    if edited:
        ctx.tag('route:dict-edited-in-place')
        judge(sp, 'conditions edited in place: the next call answers for the new content', T_arr, RT_ARRAY, kw,
              ['GoRT'], models, 1.0, {'call': 'after-edit'})


def _run_routing_shard(shard, ctx):
    tier, cls, phase = shard['tier'], shard['cls'], shard['phase']
    for models in _r_lists(tier)[shard['part']::shard['nparts']]:
        objs = (_r_build(cls, phase, models), _r_build(cls, phase, list(reversed(models)), factor=2.0))
        ctx.state(core.dumps(['routing', cls, phase, models]))
        for i, call in enumerate(_r_calls(models, tier)):
            case = dict(kind='routing', cls=cls, phase=phase, models=models, call=call, tier=tier)
            ctx.trans()
            ctx.trace()
            if len(models) > 1 or call['keys']:
                ctx.nontrivial(core.dumps(['routing', cls, phase, models, call]))
            if i == 7:
                ctx.sample(case, limit=1)
            ctx.run_case(lambda c_, x_, objs=objs: _routing_case(c_, x_, objs), case, _r_sig(case))


LEVEL_TEXT = ('Explicit-state BFS over histories of real Nasa, Nasa9 and Shomate species: construction with every phase, '
              'add_gas_P_adj setting and ordered list of correction models of the alphabet, followed by dictionary '
              'reload, JSON reload, deepcopy and construction of a second species from the same list object; in every '
              'reachable state the attached models, the pressure-adjustment count, all four dimensionless getters against '
              'bare polynomial + closed-form contributions (scalar and array T, three pressures and coverages), the '
              'S(P)/G(P) law and array = scalar-by-scalar are judged; complete up to the stated depth.  Routing '
              'family: full product of species class x phase x ordered list of coverage models of related-named '
              'adsorbates x every way of giving the coverages (top-level x, per-species dictionaries for every subset '
              'in every key order, dictionary of an absent species, empty dictionary), each call repeated, evaluated '
              'on a second species and after an in-place edit of the conditions.  Duplicates family: the same BFS '
              'and clauses from user lists that hold repeated models (separate equal objects, the same object listed '
              'two or three times, models differing in one parameter; adjacent or separated, with an explicit '
              'pressure adjustment in every position); the caller\'s list and model objects are compared with what '
              'the caller put there after every history.')
LEVEL_NOTE = ('User lists of <= 2 (quick) / <= 3 (thorough) models; 2 (quick) / 3 (thorough) operations after construction; '
              'explicit GasPressureAdj only where the statement is unambiguous; reload clauses rely on the C11 JSON fixes.')
TECHNIQUE = 'explicit-state BFS over operation histories on the implementation, reference-model oracle'
