"""C13 - pressure and coverage corrections are added exactly once per attached model.

Shape A: explicit-state BFS over histories of a real empirical species.

    root      Nasa / Nasa9 / Shomate(name='A(S)', phase, add_gas_P_adj, misc_models=<user's list object>)
    ops       to_dict -> from_dict | JSON encode/decode | copy.deepcopy |
              construct a second species (gas / surface) from the *same list object* the user passed to the root
    state     the current species + the user's list object; canonical key = class, phase, to_dict() image of the
              species, kinds found in the user's list; every history is replayed from scratch on the real classes

In every state (= after every transition) a reference model of the history says which correction
models must be attached (the user's models, in any order, plus exactly one pressure adjustment for an
enabled gas species, none otherwise) and every dimensionless getter is compared with

    bare polynomial (textbook form, pmc.ref.empirical_ref) + sum over that reference list of the model's
    closed-form contribution at the same (T, P, coverages)

for scalar and array temperatures; S(P) - S(1 bar) = -ln(P/bar) for an enabled gas and 0 otherwise;
array = scalar-by-scalar.
"""
import copy
import itertools
import json
import math

import numpy as np

from pmc.engine import core
from pmc.ref import empirical_ref as ref

ID = 'C13'
RULE = ('BFS over histories root-construction x sequence of {dict reload, JSON reload, deepcopy, second species (gas / '
        'surface) built from the same user list}; states de-duplicated on (class, phase, to_dict image, kinds in the '
        'user list); a state is non-trivial when at least one correction model is attached or expected')
ASSUMPTIONS = [
    'correction models: GasPressureAdj, two PiecewiseCovEffect (coverage of the species itself and of a second species), '
    'one ConstantMode; every ordered list of at most 2 (quick) / 3 (thorough) distinct models, plus None and []',
    'an explicit GasPressureAdj in the user list is only used where the statement is unambiguous: gas phase, adjustment '
    'not disabled ("pressure adjustment already present or not")',
    'the reload clauses assume the JSON plumbing repaired under C11 (fixes/C11/02,05,06,17: registry, Nasa9 key, '
    'SingleNasa9.from_dict, element-wise decoding of misc_models)',
    'temperatures 500 K, [500], [300, 500, 1200], 50 points 250-1900 K; P in {1e-3, 1, 100} bar; coverages in {0, 0.3, 1}',
]
EXPLANATION = ('explicit-state exploration of the implementation; each history is executed on the real classes and '
               'judged against a reference list of attached models and closed-form contributions')

CLASSES = ['Nasa', 'Nasa9', 'Shomate']
PHASES = ['g', 'gas', 'G', 's', 'S', None]
FLAGS = ['default', 'disabled']
KINDS = ['P', 'A', 'B', 'K']
OPS = ['dict', 'json', 'copy', 'second:g', 'second:s']
QUANT = ['CpoR', 'HoRT', 'SoR', 'GoRT']
NAME = 'A(S)'
T_SCALAR = 500.0
T_SHAPES = {
    'scalar': T_SCALAR,
    'len1': [500.0],
    'len3': [300.0, 500.0, 1200.0],
    'len50': [250.0 + 1650.0 * i / 49.0 for i in range(50)],
}
PRESSURES = [1e-3, 1.0, 100.0]
COVERAGES = [(0.0, 1.0), (0.3, 0.0), (1.0, 0.3)]        # (coverage of A(S), coverage of B(S))
COV = {'A': dict(name_j='A(S)', intervals=[0.0, 0.5], slopes=[-10.0, 25.0], name='covA'),
       'B': dict(name_j='B(S)', intervals=[0.0, 0.25, 0.75], slopes=[5.0, -7.0, 3.0], name='covB')}
CONST = dict(Cp=1.2e-5, H=0.05, S=2.5e-5)               # eV/K, eV, eV/K

# species polynomials (water-like; same tables as C02)
A7_LOW = [4.19864056E+00, -2.03643410E-03, 6.52040211E-06, -5.48797062E-09, 1.77197817E-12,
          -3.02937267E+04, -8.49032208E-01]
A7_HIGH = [3.03399249E+00, 2.17691804E-03, -1.64072518E-07, -9.70419870E-11, 1.68200992E-14,
           -3.00042971E+04, 4.96677010E+00]
A9_LOW = [-3.947960830E+04, 5.755731020E+02, 9.317826530E-01, 7.222712860E-03, -7.342557370E-06,
          4.955043490E-09, -1.336933246E-12, -3.303974310E+04, 1.724205775E+01]
A9_HIGH = [1.034972096E+06, -2.412698562E+03, 4.646110780E+00, 2.291998307E-03, -6.836830480E-07,
           9.426468930E-11, -4.822380530E-15, -1.384286509E+04, -7.978148510E+00]
ASH = [30.09200, 6.832514, 6.793435, -2.534480, 0.082139, -250.8810, 223.3967, -241.8264]
T_LOW, T_MID, T_HIGH = 200.0, 1000.0, 6000.0

PLANNED_TAGS = ['op:construct', 'op:dict', 'op:json', 'op:copy', 'op:second:g', 'op:second:s',
                'gas:auto-added', 'gas:already-present', 'gas:disabled', 'phase:other', 'phase:None',
                'models:0', 'models:1', 'models:2', 'models:3', 'cov:two-species', 'T:scalar', 'T:len1',
                'T:len3', 'T:len50', 'second:after-gas-root', 'list:None', 'list:empty']


def _maxlist(tier):
    return 2 if tier == 'quick' else 3


def _depth(tier):
    return 2 if tier == 'quick' else 3


def bounds(tier):
    return dict(classes=CLASSES, phases=PHASES, add_gas_P_adj=FLAGS, model_kinds=KINDS,
                user_lists='None, [], every ordered list of <= %d distinct kinds' % _maxlist(tier),
                operations=OPS, depth='construction + %d operations' % _depth(tier),
                temperature_shapes={k: (v if k != 'len50' else '50 points 250-1900 K') for k, v in T_SHAPES.items()},
                len50_evaluated='every state' if tier != 'quick' else 'root states',
                pressures=PRESSURES, coverages=COVERAGES,
                conditions='full product P x coverage (50-point arrays: P and coverage varied together)' if tier != 'quick'
                else 'P and coverage varied together (3)')


def _is_gas(phase):
    return phase is not None and phase.lower() in ('g', 'gas')


def _user_lists(phase, flag, tier):
    kinds = list(KINDS)
    if not (_is_gas(phase) and flag == 'default'):
        kinds.remove('P')
    out = [None, []]
    for n in range(1, _maxlist(tier) + 1):
        out += [list(p) for p in itertools.permutations(kinds, n)]
    return out


def shards(tier):
    out = []
    for cls in CLASSES:
        for phase in PHASES:
            for flag in FLAGS:
                lists = _user_lists(phase, flag, tier)
                nparts = (len(lists) + 9) // 10
                for part in range(nparts):
                    out.append(dict(cls=cls, phase=phase, flag=flag, part=part, nparts=nparts, tier=tier))
    return out


# ----------------------------------------------------------------------------- real objects
def _mk_model(kind):
    from pmutt.empirical import GasPressureAdj
    from pmutt.mixture.cov import PiecewiseCovEffect
    from pmutt.statmech import ConstantMode
    if kind == 'P':
        return GasPressureAdj()
    if kind in COV:
        d = COV[kind]
        return PiecewiseCovEffect(name_i=NAME, name_j=d['name_j'], intervals=list(d['intervals']),
                                  slopes=list(d['slopes']), name=d['name'])
    if kind == 'K':
        return ConstantMode(**CONST)
    raise ValueError(kind)


def _kind(m):
    n = type(m).__name__
    if n == 'GasPressureAdj':
        return 'P'
    if n == 'PiecewiseCovEffect':
        return 'A' if m.name_j == COV['A']['name_j'] else 'B'
    if n == 'ConstantMode':
        return 'K'
    return '?' + n


def _kinds_of(lst):
    if lst is None:
        return None
    return [_kind(m) for m in lst]


def _construct(cls, phase, flag, user_list):
    from pmutt.empirical.nasa import Nasa, Nasa9, SingleNasa9
    from pmutt.empirical.shomate import Shomate
    kw = dict(phase=phase, misc_models=user_list, elements={'H': 2, 'O': 1})
    if flag == 'disabled':
        kw['add_gas_P_adj'] = False
    if cls == 'Nasa':
        return Nasa(name=NAME, T_low=T_LOW, T_mid=T_MID, T_high=T_HIGH, a_low=np.array(A7_LOW),
                    a_high=np.array(A7_HIGH), **kw)
    if cls == 'Nasa9':
        return Nasa9(name=NAME, nasas=[SingleNasa9(T_low=T_LOW, T_high=T_MID, a=np.array(A9_LOW)),
                                       SingleNasa9(T_low=T_MID, T_high=T_HIGH, a=np.array(A9_HIGH))], **kw)
    return Shomate(name=NAME, T_low=T_LOW, T_high=T_HIGH, a=np.array(ASH), **kw)


def _apply(sp, op, world):
    """One operation on the real objects.  world: {'user': the list object the user passed to the root}."""
    from pmutt.io.json import pmuttEncoder, json_to_pmutt
    if op == 'dict':
        return type(sp).from_dict(sp.to_dict())
    if op == 'json':
        return json.loads(json.dumps(sp, cls=pmuttEncoder), object_hook=json_to_pmutt)
    if op == 'copy':
        return copy.deepcopy(sp)
    if op.startswith('second:'):
        return _construct(type(sp).__name__, op.split(':')[1], 'default', world['user'])
    raise ValueError(op)


# ----------------------------------------------------------------------------- reference model
def _ref_construct(cls, phase, flag, user_kinds):
    kinds = list(user_kinds or [])
    enabled = _is_gas(phase) and flag == 'default'
    how = 'n/a'
    if enabled:
        if 'P' in kinds:
            how = 'already-present'
        else:
            kinds.append('P')
            how = 'auto-added'
    return dict(cls=cls, phase=phase, flag=flag, kinds=kinds, enabled=enabled, how=how)


def _ref_apply(state, op, root):
    if op in ('dict', 'json', 'copy'):
        return dict(state)
    return _ref_construct(state['cls'], op.split(':')[1], 'default', root['user'])


def _cov_energy(kind, x):
    """Continuous piecewise-linear interaction energy (kcal/mol) with f(0) = 0."""
    iv, sl = COV[kind]['intervals'], COV[kind]['slopes']
    tot = 0.0
    for k in range(len(iv)):
        hi = iv[k + 1] if k + 1 < len(iv) else float('inf')
        ov = max(0.0, min(hi, x) - iv[k])
        tot += sl[k] * ov
    return tot


def _contribution(kind, T, P, xa, xb):
    """(CpoR, HoRT, SoR) of one attached model at the conditions (closed forms)."""
    from pmutt import constants as c
    if kind == 'P':
        return 0.0, 0.0, -math.log(P)
    if kind in COV:
        x = xa if kind == 'A' else xb
        return 0.0, _cov_energy(kind, x) / (c.R('kcal/mol/K') * T), 0.0
    if kind == 'K':
        R = c.R('eV/K')
        return CONST['Cp'] / R, CONST['H'] / R / T, CONST['S'] / R
    raise ValueError(kind)


def _bare(cls, T):
    from pmutt import constants as c
    if cls == 'Nasa':
        t = ref.nasa7_terms(A7_HIGH if T >= T_MID else A7_LOW, T)
    elif cls == 'Nasa9':
        t = ref.nasa9_terms(A9_HIGH if T > T_MID else A9_LOW, T)
    else:
        t = ref.shomate_terms(ASH, T, c.R('J/mol/K'))
    return ref.values(t)


def _expected(state, T, P, xa, xb):
    """{quantity: (value, round-off scale)} of the species in reference state `state`."""
    b = _bare(state['cls'], T)
    cp, h, s = b['CpoR'][0], b['HoRT'][0], b['SoR'][0]
    scp, sh, ss = b['CpoR'][1], b['HoRT'][1], b['SoR'][1]
    for k in state['kinds']:
        dcp, dh, ds = _contribution(k, T, P, xa, xb)
        cp, h, s = cp + dcp, h + dh, s + ds
        scp, sh, ss = scp + abs(dcp), sh + abs(dh), ss + abs(ds)
    return {'CpoR': (cp, scp + 1.0), 'HoRT': (h, sh + 1.0), 'SoR': (s, ss + 1.0),
            'GoRT': (h - s, sh + ss + 1.0)}


# ----------------------------------------------------------------------------- evaluation of one state
def _conditions(tier, shape='scalar'):
    if tier == 'quick' or shape == 'len50':
        return [(P, xa, xb) for P, (xa, xb) in zip(PRESSURES, COVERAGES)]
    return [(P, xa, xb) for P in PRESSURES for (xa, xb) in COVERAGES]


def _kwargs(P, xa, xb):
    return {'P': P, 'A(S)_kwargs': {'x': xa}, 'B(S)_kwargs': {'x': xb}}


def _nlabel(n):
    return str(n) if n < 2 else '2+'


def _check_state(sp, state, world, case, ctx, op, shapes, tier):
    """All clauses in one state.  True when the state is healthy."""
    phase_cls = 'gas' if _is_gas(state['phase']) else ('none' if state['phase'] is None else 'other')
    sig0 = {'cls': state['cls'], 'phase': phase_cls, 'flag': state['flag'], 'op': op.split(':')[0],
            'n': _nlabel(len(state['kinds']))}
    ok = True
    obs_kinds = _kinds_of(sp.misc_models) or []
    ok &= ctx.equal('attached models are the user\'s models plus one pressure adjustment for an enabled gas species',
                    sorted(obs_kinds), sorted(state['kinds']), dict(sig0, getter='misc_models'), case)
    ok &= ctx.equal('a gas species carries exactly one pressure adjustment unless disabled, other phases none',
                    obs_kinds.count('P'), 1 if state['enabled'] else 0, dict(sig0, getter='misc_models'), case)
    ctx.tag('models:%d' % min(len(state['kinds']), 3))
    if _is_gas(state['phase']):
        ctx.tag('gas:' + (state['how'] if state['enabled'] else 'disabled'))
    else:
        ctx.tag('phase:None' if state['phase'] is None else 'phase:other')
    if 'A' in state['kinds'] and 'B' in state['kinds']:
        ctx.tag('cov:two-species')
    for shape in shapes:
        Ts = T_SHAPES[shape]
        ctx.tag('T:' + shape)
        scalar = shape == 'scalar'
        Tlist = [Ts] if scalar else list(Ts)
        Targ = Ts if scalar else np.array(Ts)
        sig1 = dict(sig0, T='scalar' if scalar else 'array')
        for (P, xa, xb) in _conditions(tier, shape):
            kw = _kwargs(P, xa, xb)
            exp = [_expected(state, T, P, xa, xb) for T in Tlist]
            got = {}
            for q in QUANT:
                sig = dict(sig1, getter='get_' + q)
                v = getattr(sp, 'get_' + q)(T=Targ, **kw)
                ctx.evals()
                if not ctx.true('N temperatures give N values', np.size(v) == len(Tlist), sig, case,
                                list(np.shape(v)), len(Tlist)):
                    ok = False
                    continue
                v = np.ravel(np.asarray(v, dtype=float))
                got[q] = v
                ok &= ctx.close('value = bare polynomial + sum of every attached model\'s contribution', v,
                                [e[q][0] for e in exp], sig, case, rtol=1e-10, atol=0.0,
                                scale=np.array([e[q][1] for e in exp]))
                if not scalar:
                    each = [float(np.ravel(getattr(sp, 'get_' + q)(T=T, **kw))[0]) for T in Tlist]
                    ctx.evals(len(Tlist))
                    ok &= ctx.close('array of temperatures = scalar-by-scalar evaluation', v, each, sig, case,
                                    rtol=1e-12, atol=0.0, scale=np.array([e[q][1] for e in exp]))
            if P != 1.0 and 'SoR' in got and 'GoRT' in got:
                kw1 = _kwargs(1.0, xa, xb)
                s1 = np.ravel(np.asarray(sp.get_SoR(T=Targ, **kw1), dtype=float))
                g1 = np.ravel(np.asarray(sp.get_GoRT(T=Targ, **kw1), dtype=float))
                ctx.evals(2)
                shift = -math.log(P) if state['enabled'] else 0.0
                sc = np.array([e['GoRT'][1] for e in exp])
                ok &= ctx.close('S(P) - S(1 bar) = -ln(P/bar) for an enabled gas species, 0 otherwise',
                                got['SoR'] - s1, [shift] * len(Tlist), dict(sig1, getter='get_SoR'), case,
                                rtol=1e-10, atol=0.0, scale=sc)
                ok &= ctx.close('G(P) - G(1 bar) = +ln(P/bar) for an enabled gas species, 0 otherwise',
                                got['GoRT'] - g1, [-shift] * len(Tlist), dict(sig1, getter='get_GoRT'), case,
                                rtol=1e-10, atol=0.0, scale=sc)
    return bool(ok)


# ----------------------------------------------------------------------------- histories
def _shapes_for(tier, nops):
    if tier == 'quick' and nops > 0:
        return ['scalar', 'len1', 'len3']
    return ['scalar', 'len1', 'len3', 'len50']


def _replay(case, ctx, judge=True):
    """Run the history on the real classes from scratch; judge the final state (and only it)."""
    root, ops, tier = case['root'], case['ops'], case['tier']
    user = None if root['user'] is None else [_mk_model(k) for k in root['user']]
    world = dict(user=user)
    sp = _construct(root['cls'], root['phase'], root['flag'], user)
    state = _ref_construct(root['cls'], root['phase'], root['flag'], root['user'])
    for op in ops:
        sp = _apply(sp, op, world)
        state = _ref_apply(state, op, root)
    last = ops[-1] if ops else 'construct'
    healthy = True
    if judge:
        ctx.tag('op:' + last)
        if root['user'] is None:
            ctx.tag('list:None')
        elif not root['user']:
            ctx.tag('list:empty')
        if last.startswith('second') and _is_gas(root['phase']):
            ctx.tag('second:after-gas-root')
        healthy = _check_state(sp, state, world, case, ctx, last, _shapes_for(tier, len(ops)), tier)
    return sp, state, world, healthy


def check_case(case, ctx):
    _replay(case, ctx)


def _canon(sp, state, world):
    try:
        image = core.dumps(sp.to_dict())
    except Exception as e:          # a broken state has already been reported by its own clauses
        image = 'to_dict raised %s' % type(e).__name__
    return core.dumps([state['cls'], state['phase'], state['flag'], image, _kinds_of(world['user'])])


def _sig_for(root, ops):
    st = _ref_construct(root['cls'], root['phase'], root['flag'], root['user'])
    for op in ops:
        st = _ref_apply(st, op, root)
    last = ops[-1] if ops else 'construct'
    phase_cls = 'gas' if _is_gas(st['phase']) else ('none' if st['phase'] is None else 'other')
    return {'cls': st['cls'], 'phase': phase_cls, 'flag': st['flag'], 'op': last.split(':')[0],
            'n': _nlabel(len(st['kinds']))}


def _ops_for(root):
    ops = list(OPS)
    if root['user'] is not None and 'P' in root['user']:
        ops.remove('second:s')          # an explicit GasPressureAdj handed to a surface species: not judged
    return ops


def _visit(root, ops, tier, ctx):
    """Execute and judge one history; returns (canonical key, state) when the final state is healthy."""
    case = dict(root=root, ops=ops, tier=tier)
    res = {}

    def run(case_, ctx_, res=res):
        res['out'] = _replay(case_, ctx_)
    ctx.trace()
    if ops:
        ctx.trans()
    if not ctx.run_case(run, case, _sig_for(root, ops)):
        return None
    sp, state, world, healthy = res['out']
    if not healthy:
        return None                                   # violated state: reported, not expanded
    key = _canon(sp, state, world)
    if state['kinds'] or root['user']:
        ctx.nontrivial((key, ops[-1] if ops else 'construct'))
    return key, case


def run_shard(shard, ctx):
    tier = shard['tier']
    lists = _user_lists(shard['phase'], shard['flag'], tier)[shard['part']::shard['nparts']]
    depth = _depth(tier)
    for user in lists:
        root = dict(cls=shard['cls'], phase=shard['phase'], flag=shard['flag'], user=user)
        got = _visit(root, [], tier, ctx)
        if got is None:
            continue
        seen = {got[0]}
        ctx.state(got[0])
        frontier = [[]]
        for d in range(depth):
            nxt = []
            for hist in frontier:
                for op in _ops_for(root):
                    got = _visit(root, hist + [op], tier, ctx)
                    if got is None or got[0] in seen:
                        continue
                    seen.add(got[0])
                    ctx.state(got[0])
                    nxt.append(hist + [op])
                    if d == depth - 1:
                        ctx.sample(got[1], limit=1)
            frontier = nxt


LEVEL_TEXT = ('Explicit-state BFS over histories of real Nasa, Nasa9 and Shomate species: construction with every phase, '
              'add_gas_P_adj setting and ordered list of correction models of the alphabet, followed by dictionary '
              'reload, JSON reload, deepcopy and construction of a second species from the same list object; in every '
              'reachable state the attached models, the pressure-adjustment count, all four dimensionless getters against '
              'bare polynomial + closed-form contributions (scalar and array T, three pressures and coverages), the '
              'S(P)/G(P) law and array = scalar-by-scalar are judged; complete up to the stated depth.')
LEVEL_NOTE = ('User lists of <= 2 (quick) / <= 3 (thorough) models; 2 (quick) / 3 (thorough) operations after construction; '
              'explicit GasPressureAdj only where the statement is unambiguous; reload clauses rely on the C11 JSON fixes.')
TECHNIQUE = 'explicit-state BFS over operation histories on the implementation, reference-model oracle'
