"""C15 - the spreadsheet reader maps rows and special columns as documented.

Shape B: deviation-bounded product over the description of a worksheet (which ordinary and
special columns exist, how often, which cells are empty, column order, cell style, header padding,
number of rows, comment row, sheet name): every configuration that departs from the default sheet
in <= 2 (thorough: 3) coordinates is written with openpyxl and read with the real read_excel.
Shape A (reader state across rows): for several 4-column blocks, ALL 2^(rows*4) emptiness patterns
of a rows x 4 block (rows = 3; thorough also 4): the per-row dictionary of the reader is the state,
every row is a transition.

Oracles: (1) the record predicted by pmc/ref/excel.py (exact header grammar, written from the
documentation, no pmutt import); (2) differential row isolation: row i of an n-row sheet gives the
record that the one-row sheet holding only row i gives.
"""
import itertools
import os
import re
import shutil
import tempfile

from pmc.ref import excel as ref

# Imported here (the runner loads this module before it forks the shard processes) so that
# the ~2 s import of pandas / openpyxl / ase behind pmutt.io.excel is paid once, not per shard.
import openpyxl  # noqa: E402,F401
import pandas  # noqa: E402,F401
import pmutt.io.excel  # noqa: E402,F401
try:
    import pandas.io.excel._openpyxl  # noqa: E402,F401  (reader engine, otherwise imported at first read)
except ImportError:
    pass

ID = 'C15'
RULE = ('product family: all sheet descriptions that differ from the default description in at most L '
        'coordinates (L=2 quick, 3 thorough), each written to an .xlsx file and read back; block family: '
        'all emptiness patterns of a rows x 4 block for each column quadruple; calls family: all histories '
        'of <= 2 (thorough 3) read_excel calls over 18 one-row sheets without resetting the module in '
        'between (every other read starts from a re-executed pmutt.io.excel); long family: for every '
        'indexed or repeatable header kind (list.name.i from 0 and from 1, list.name repeated, '
        'vib_wavenumber, rot_temperature, dict.name.key with word and with numeric keys, element.X, '
        'ordinary columns, the 14 NASA coefficients) every member count 11..30 x column order x header '
        'padding, rows = all filled / each single member alone / only members >= 10 / only members < 10 / '
        'every third empty / none (thorough: also every pair of kinds in one sheet); a case is distinct by its '
        '(headers, cells, comment row, sheet layout) and non-trivial when its set of reader branches '
        '(special setters used, empty cells, padded cells, presets, multi-row ...) differs from the '
        'default sheet (product), when a column has an empty cell below a filled one (block) or when '
        'the history has more than one call (calls); text family: every text of a list of 48 texts that hold a '
        'character or word special to table / spreadsheet readers (#, leading =, quotes, ; , line break, tab, '
        'NA-like words inside longer text, % $ \\ < & + - @ | ...) in every column that may hold free text (first / '
        'middle / last ordinary column, both members of a list, both keys of a dictionary) x column order '
        '(filled cells of every kind to its right / to its left), one row per text, plus every text column at '
        'once, plus one-row sheets (text x first ordinary / ordinary / dictionary column, comment row present and '
        'absent); values family: every number of a list of 28 numbers (negative, 0 / 0.0 / -0.0, denormal / tiny of '
        'both signs, just below / at / just above a cutoff of 50, huge of both signs; Python ints and floats) in every '
        'numeric column (both elements, each of three vib_wavenumber columns, both rot_temperature columns, both list '
        'members, both dictionary keys, three NASA coefficients, two ordinary columns) x column order x how the '
        'vib_outcar-only options min_frequency_cutoff / include_imaginary are given (omitted, documented defaults by '
        'keyword, by position, cutoff 50 without imaginary, cutoff 0 with imaginary, int 0 / None), one row per number, '
        'plus integer-only columns, plus every numeric column at once, plus one-row sheets (number x one column of each '
        'kind x options)')
ASSUMPTIONS = [
    'cells are numbers, or strings that pandas does not itself read as missing (NA, N/A, NaN, None, null, '
    'empty string ... are "empty" by the reader\'s documented na_values convention and are not used)',
    'list.name(.i) and repeated vib_wavenumber / rot_temperature columns fill their list in column '
    'order (the index i is only a de-duplication suffix, as the source comment says)',
    'formula and element.X are not both filled in the same row (both orders are defensible); the '
    'two columns may coexist in a sheet',
    'an explicit per-mode model column wins over a preset wherever the two columns stand (release '
    'note 1.2.13); a formula names each element once (set_formula docstring)',
    'names of list./dict. fields and ordinary headers do not contain another special word '
    '(element, formula, atoms, nasa, ..._model, vib_wavenumber, rot_temperature)',
    'headers padded with spaces are non-repeated headers (a repeated header is renamed by pandas '
    'before pMuTT sees it)',
    'a row without any cell at the end of the sheet does not exist in the file; an interior one is a '
    'data row with an empty record',
    'atoms and vib_outcar columns (need ASE structure files / OUTCAR) are not in the statement and '
    'not explored',
    'text family: a text cell is stored as a text cell (a string that begins with = is written with the '
    'string data type, not as a formula); texts that look like numbers or dates are not used (the type '
    'inference of the spreadsheet library is not pMuTT\'s business)',
    'values family: numeric cells are finite doubles or integers of magnitude <= 1e15; min_frequency_cutoff and '
    'include_imaginary "apply for the vib_outcar header" (read_excel docstring), so no value of them changes what '
    'a vib_wavenumber cell (or any other cell) gives; a negative / zero / tiny / huge number is a non-empty cell',
]
EXPLANATION = ('stateless exploration of the real reader: every case is a workbook written to disk and '
               'read by pmutt.io.excel.read_excel')

# ------------------------------------------------------------------ alphabet
PRESET_NAMES = ['idealgas', 'harmonic', 'electronic', 'placeholder', 'constant']
FORMULAS = ['H2O', 'CH4', 'Ar', 'C2H6O', 'NH3', 'Pt']

# coordinate -> values; the first value is the default
COORDS = [
    ('ord', ['all', 'none', 'first3', 'spaced-only', 'some-empty', 'all-empty-but-name']),
    ('comp', ['el2', 'none', 'el1', 'el3', 'el3-mid-empty', 'el2-all-empty', 'formula', 'formula-empty',
              'formula+el-empty', 'el2+formula-empty', 'formula-first+el-empty']),
    ('vib', ['3', '0', '1', '30', '3-mid-empty', '3-all-empty', '30-sparse']),
    ('rot', ['1', '0', '2', '3', '3-first-empty', '1-empty']),
    ('lst', ['a,a.1', 'none', 'a', 'a,a.1,b', 'b', 'a-empty,a.1', 'a-dup3', 'a.0,a.1,a.2', 'all-empty']),
    ('dct', ['k1,k2', 'none', 'k1', 'k1-empty,k2', 'all-empty', 'd.k1,e.k1']),
    ('nasa', ['sparse', 'none', 'low7', 'low7+high7', 'high7', 'low7-some-empty', 'low7-all-empty']),
    ('sm', ['idealgas', 'none', 'harmonic', 'electronic', 'placeholder', 'constant', 'IdealGas', 'HARMONIC',
            'empty']),
    ('trans', ['none', 'FreeTrans', 'EmptyMode', 'empty']),
    ('vibm', ['none', 'HarmonicVib', 'QRRHOVib', 'EinsteinVib', 'DebyeVib', 'EmptyMode', 'emptymode',
              'empty']),
    ('rotm', ['none', 'RigidRotor', 'EmptyMode', 'empty']),
    ('elecm', ['none', 'GroundStateElec', 'LSR', 'ExtendedLSR', 'EmptyMode', 'empty']),
    ('nuclm', ['none', 'EmptyNucl', 'EmptyMode', 'empty']),
    ('order', ['identity', 'reversed', 'specials-first', 'interleaved', 'models-last-reversed']),
    ('style', ['plain', 'pad-strings', 'ints', 'floats']),
    ('hpad', ['none', 'pad-all']),
    ('rows', [1, 2, 3, 60]),
    ('comment', ['present', 'absent']),
    ('sheet', ['default', 'custom-second', 'custom-only', 'default-decoy-after']),
    # how the options are given: omitted, every documented default passed explicitly, or the sheet
    # addressed by its position (int) and the file by a pathlib.Path
    ('kw', ['omitted', 'explicit-defaults', 'sheet-index+pathlib']),
]
COORD_NAMES = [c for c, _ in COORDS]
DEFAULT = {c: v[0] for c, v in COORDS}

QUADS = {
    'elements+vib': [('element.H', [2, 4, 6, 8]), ('element.O', [1, 3, 5, 7]),
                     ('vib_wavenumber', [3000.5, 3100.5, 3200.5, 3300.5]),
                     ('vib_wavenumber', [1500.25, 1600.25, 1700.25, 1800.25])],
    'list+dict': [('list.a', [1, 'p1', 2.5, 'p3']), ('list.a.1', ['x0', 11, 'x2', 13]),
                  ('dict.d.k1', ['v0', 'v1', 'v2', 'v3']), ('dict.d.k2', [20, 21, 22.5, 23])],
    'nasa+rot': [('nasa.a_low.0', [1.5, 2.5, 3.5, 4.5]), ('nasa.a_low.6', [-7, -8, -9, -10]),
                 ('nasa.a_high.3', [0.125, 0.25, 0.375, 0.5]), ('rot_temperature', [85.5, 12.25, 40, 9.5])],
    'models+formula': [('statmech_model', ['IdealGas', 'harmonic', 'placeholder', 'constant']),
                       ('vib_model', ['QRRHOVib', 'EmptyMode', 'DebyeVib', 'EinsteinVib']),
                       ('nucl_model', ['EmptyMode', 'EmptyNucl', 'emptymode', 'EmptyNucl']),
                       ('formula', ['H2O', ' CH4 ', 'Pt', 'C2H6O'])],
    'ordinary': [('name', ['H2O', 'CH4', ' Pt(S) ', 'O2']), ('symmetrynumber', [2, 12, 1, 2]),
                 (' spaced header ', [' a b ', 7, 'c', 8.5]), ('potentialenergy', [-14.25, -24.5, -6, -9.75])],
    'elec+trans+rot': [('elec_model', ['GroundStateElec', 'LSR', 'EmptyMode', 'ExtendedLSR']),
                       ('trans_model', ['FreeTrans', 'EmptyMode', 'FreeTrans', 'emptymode']),
                       ('rot_model', ['RigidRotor', 'EmptyMode', 'RigidRotor', 'EmptyMode']),
                       ('statmech_model', ['electronic', 'IdealGas', 'constant', 'harmonic'])],
}
QUADS_QUICK = ['elements+vib', 'list+dict', 'models+formula']
QUADS_THOROUGH = list(QUADS)
BLOCK4_THOROUGH = ['elements+vib', 'list+dict']     # 4 x 4 blocks (2^16 sheets each)

CALL_MASKS = [0b1111, 0b0101, 0b1010]
CALL_DEPTH = {'quick': 2, 'thorough': 3}

N_PRODUCT_SHARDS = {'quick': 16, 'thorough': 48}

# ---- long family: indexed / repeatable header kinds with 11..30 members
LONG_N = list(range(11, 31))
LONG_LIST_NAMES = ['a', 'energy_grid', 'grid2']      # one letter; with an underscore; ending in a digit
ELEMENT_SYMBOLS = ['H', 'He', 'Li', 'Be', 'B', 'C', 'N', 'O', 'F', 'Ne', 'Na', 'Mg', 'Al', 'Si', 'P', 'S', 'Cl',
                   'Ar', 'K', 'Ca', 'Sc', 'Ti', 'V', 'Cr', 'Mn', 'Fe', 'Co', 'Ni', 'Cu', 'Zn']
LONG_GROUPS = (['list.i0:' + nm for nm in LONG_LIST_NAMES] + ['list.i1:' + nm for nm in LONG_LIST_NAMES]
               + ['list.rep:' + nm for nm in LONG_LIST_NAMES]
               + ['vib_wavenumber', 'rot_temperature', 'dict.word-keys', 'dict.numeric-keys', 'element',
                  'ordinary', 'nasa14'])
LONG_ORDERS = ['identity', 'reversed', 'interleaved']
N_LONG_SHARDS = {'quick': 16, 'thorough': 64}

# ---- text family: text cells holding characters that are special to spreadsheet / table readers
# (comment characters, formula / quoting / separator characters, line breaks, words that read as "missing" when they
# are the WHOLE cell but not inside longer text).  (class, text); none of them is a whole-cell NA word of pandas.
SPECIAL_TEXTS = [
    ('hash', 'C#N'), ('hash', 'N#N'), ('hash', '[C-]#[O+]'), ('hash', 'see ref #3'), ('hash', '#1 candidate'),
    ('hash', 'ends with #'), ('hash', '#'), ('hash', '#N/A for the gas phase'),
    ('equals-leading', '=O'), ('equals-leading', '=C=O'), ('equals-leading', '=='), ('equals', 'a=b'),
    ('quote', 'say "hi"'), ('quote', '"quoted"'), ('quote', '"'), ('quote', "O'Neil"), ('quote', "'single'"),
    ('quote', "'leading apostrophe"),
    ('semicolon', 'a;b'), ('semicolon', ';'), ('semicolon', 'x, y; z'),
    ('comma', 'a,b'), ('comma', '1,234 cm-1'), ('comma', ','),
    ('newline', 'line1\nline2'), ('newline', 'a\n\nb'), ('tab', 'a\tb'),
    ('na-word', 'NA2'), ('na-word', 'NaN3 is an azide'), ('na-word', 'N/A for gas'), ('na-word', 'None of these'),
    ('na-word', 'null result'), ('na-word', 'not NA'), ('na-word', 'nan-particle'),
    ('other', '50%'), ('other', '$5'), ('other', 'a\\b'), ('other', '\\N'), ('other', 'C:\\dir\\file.txt'),
    ('other', '<b>x</b> & y'), ('other', '+1 eV'), ('other', '-x'), ('other', '@home'), ('other', 'a|b'),
    ('other', 'True story'), ('other', '1e5x'), ('other', '*'), ('other', '\u00c5\u00b2'),
]
TEXT_HEADERS = ['name', 'element.C', 'notes', 'list.tags', 'list.tags.1', 'potentialenergy', 'dict.info.src',
                'dict.info.n', 'vib_wavenumber', 'vib_wavenumber', 'statmech_model', 'smiles']
# columns that may hold free text: (position in TEXT_HEADERS, kind)
TEXT_COLUMNS = [(0, 'first-ordinary'), (2, 'ordinary'), (11, 'last-ordinary'), (3, 'list'), (4, 'list'),
                (6, 'dict'), (7, 'dict')]
TEXT_SINGLE_COLUMNS = [0, 2, 6]
TEXT_ORDERS = ['identity', 'reversed']
N_TEXT_SHARDS = 2

# ---- values family: numeric cells whose sign / magnitude a filter, a truthiness test or a cutoff could act on
VAL_CUTOFF = 50.
SPECIAL_VALUES = [
    ('negative', -1483.6), ('negative', -215.5), ('negative', -1), ('negative', -1.0), ('negative', -0.5),
    ('negative-tiny', -5e-324), ('negative-tiny', -1e-300), ('negative-tiny', -1e-12),
    ('negative-huge', -1e12), ('negative-huge', -1.5e300), ('negative-huge', -10 ** 15),
    ('zero', 0), ('zero', 0.0), ('zero', -0.0),
    ('tiny', 5e-324), ('tiny', 1e-300), ('tiny', 1e-12),
    ('below-cutoff', 0.5), ('below-cutoff', 1), ('below-cutoff', 49.999),
    ('at-cutoff', 50), ('at-cutoff', 50.0), ('above-cutoff', 50.001), ('above-cutoff', 51),
    ('huge', 1e12), ('huge', 1.5e300), ('huge', 10 ** 15), ('huge', 1e308),
]
VAL_HEADERS = ['name', 'element.H', 'element.O', 'vib_wavenumber', 'vib_wavenumber', 'vib_wavenumber',
               'rot_temperature', 'rot_temperature', 'list.a', 'list.a.1', 'dict.d.k1', 'dict.d.k2', 'nasa.a_low.0',
               'nasa.a_low.6', 'nasa.a_high.3', 'potentialenergy', 'statmech_model', 'T_low']
VAL_KINDS = {1: 'element', 2: 'element', 3: 'vib_wavenumber', 4: 'vib_wavenumber', 5: 'vib_wavenumber',
             6: 'rot_temperature', 7: 'rot_temperature', 8: 'list', 9: 'list', 10: 'dict', 11: 'dict',
             12: 'nasa.a_low', 13: 'nasa.a_low', 14: 'nasa.a_high', 15: 'ordinary', 17: 'ordinary'}
VAL_COLUMNS = sorted(VAL_KINDS)
VAL_SINGLE_COLUMNS = [1, 3, 5, 6, 9, 11, 13, 14, 15]
VAL_ORDERS = ['identity', 'reversed']
# how read_excel's vib_outcar-only options are given
VAL_KW = ['omitted', 'explicit-defaults', 'positional-defaults', 'cutoff50+imag-false', 'cutoff0+imag-true',
          'cutoff-int0+imag-false', 'cutoff-none+imag-true']
VAL_KW_SINGLE = ['omitted', 'explicit-defaults', 'cutoff50+imag-false']
N_VALUE_SHARDS = 8

PLANNED_TAGS = (
    ['val:' + c for c in sorted({c for c, _ in SPECIAL_VALUES})]
    + ['val-col:' + k for k in sorted(set(VAL_KINDS.values()))]
    + ['val-kw:' + k for k in VAL_KW]
    + ['val:int-cell', 'val:float-cell', 'val:integer-only-column', 'val:one-row-sheet', 'val:every-numeric-column',
       'val:all-vib-cells-not-positive', 'val:alone-in-its-group', 'val:order-identity', 'val:order-reversed', 'val:comment-absent']
    + ['text:' + c for c in sorted({c for c, _ in SPECIAL_TEXTS})]
    + ['text-col:' + k for k in sorted({k for _, k in TEXT_COLUMNS})]
    + ['text:filled-cells-to-the-right', 'text:one-row-sheet', 'text:every-text-column',
       'text:first-data-row', 'text:last-data-row', 'text:order-identity', 'text:order-reversed'] +
    ['col:ordinary', 'col:ordinary-padded-header', 'col:element', 'col:formula', 'col:vib_wavenumber',
     'vib:x1', 'vib:x3', 'vib:x30', 'col:rot_temperature', 'rot:x3', 'col:list', 'col:list.i', 'col:list-repeated',
     'col:dict', 'dict:two-names', 'col:nasa.a_low', 'col:nasa.a_high', 'col:special-padded-header',
     'cell:empty', 'cell:padded-string', 'cell:int', 'cell:float', 'group:all-cells-empty',
     'preset:explicit-column-before', 'preset:explicit-column-after',
     'rows:1', 'rows:2', 'rows:3', 'rows:60', 'row:interior-without-cells', 'row:first-without-cells',
     'row:last-without-cells', 'comment:present', 'comment:absent', 'sheet:default', 'sheet:named',
     'sheet:named-second', 'sheet:decoy-after', 'order:identity', 'order:reversed', 'order:specials-first',
     'order:interleaved', 'order:models-last-reversed', 'block:empty-below-filled',
     'block:filled-below-empty', 'diff:one-row-sheet', 'calls:depth1', 'calls:depth2',
     'calls:empty-where-earlier-call-had-a-value',
     'kw:omitted', 'kw:explicit-defaults', 'kw:sheet-index+pathlib',
     'long:cell-at-member>=10', 'long:only-members>=10-filled', 'long:last-member-alone',
     'long:padded-headers', 'long:order-identity', 'long:order-reversed', 'long:order-interleaved']
    + ['long:' + g for g in LONG_GROUPS]
    + ['long:n%d' % n for n in LONG_N]
    + ['preset:' + p for p in PRESET_NAMES]
    + ['%s:%s' % (c, n) for c, ns in sorted(ref.MODE_CLASSES.items()) for n in sorted(ns)]
    + ['%s:EmptyMode' % c for c in sorted(ref.MODE_CLASSES)]
)


def bounds(tier):
    lvl = 2 if tier == 'quick' else 3
    return dict(product_coordinates={c: v for c, v in COORDS}, deviation_level=lvl,
                product_configurations=_n_configs(lvl),
                block_quadruples=QUADS_QUICK if tier == 'quick' else QUADS_THOROUGH,
                block_rows=3 if tier == 'quick' else '3 (all quadruples) and 4 (%s)' % BLOCK4_THOROUGH,
                block_patterns='all 2^(rows*4) emptiness patterns per quadruple',
                rows_per_sheet=[1, 2, 3, 60], vib_wavenumber_repeats=[1, 3, 30],
                call_histories='all sequences of <= %d read_excel calls over %d one-row sheets (6 quadruples x '
                               'masks %s) in one module state' % (CALL_DEPTH[tier], len(QUADS) * len(CALL_MASKS),
                                                                  CALL_MASKS),
                long_family=dict(groups=LONG_GROUPS, members=[LONG_N[0], LONG_N[-1]], orders=LONG_ORDERS,
                                 header_padding='identity order, kinds with distinct headers',
                                 rows='all / each member alone / members >= 10 / members < 10 / every third '
                                      'empty / none',
                                 pairs_of_groups=(tier != 'quick')),
                text_family=dict(texts=[t for _, t in SPECIAL_TEXTS], headers=TEXT_HEADERS,
                                 text_columns=[TEXT_HEADERS[j] for j, _ in TEXT_COLUMNS], orders=TEXT_ORDERS,
                                 sheets='per text column x order: one row per text (+ every text column at once); '
                                        'per text x column of %s: a one-row sheet'
                                        % [TEXT_HEADERS[j] for j in TEXT_SINGLE_COLUMNS]),
                values_family=dict(values=[repr(v) for _, v in SPECIAL_VALUES], headers=VAL_HEADERS,
                                   numeric_columns=[VAL_HEADERS[j] for j in VAL_COLUMNS], orders=VAL_ORDERS,
                                   options=VAL_KW,
                                   sheets='per numeric column x order x options: one row per value; per numeric column '
                                          'x options: the integer values only; per order x options: every numeric '
                                          'column at once; per value x column of %s x options of %s: a one-row sheet'
                                          % ([VAL_HEADERS[j] for j in VAL_SINGLE_COLUMNS], VAL_KW_SINGLE)),
                option_passing=['omitted', 'explicit-defaults', 'sheet-index+pathlib'],
                differential='every row of every multi-row sheet is also read alone (60-row sheets '
                             'with 3 deviations: rows 0-5 and 54-59)')


# ---------------------------------------------------------------- enumeration
def _n_configs(level):
    d = [len(v) - 1 for _, v in COORDS]
    n = 1
    for k in range(1, level + 1):
        n += sum(_prod(c) for c in itertools.combinations(d, k))
    return n


def _prod(xs):
    p = 1
    for x in xs:
        p *= x
    return p


def _configs(level):
    """All configurations with <= level deviations, in a fixed order (default first)."""
    yield {}
    for k in range(1, level + 1):
        for idx in itertools.combinations(range(len(COORDS)), k):
            alts = [COORDS[i][1][1:] for i in idx]
            for vals in itertools.product(*alts):
                yield {COORDS[i][0]: v for i, v in zip(idx, vals)}


def shards(tier):
    out = []
    n = N_PRODUCT_SHARDS[tier]
    lvl = 2 if tier == 'quick' else 3
    for p in range(n):
        out.append(dict(fam='product', level=lvl, part=p, of=n))
    for q in (QUADS_QUICK if tier == 'quick' else QUADS_THOROUGH):
        for m in range(16):
            out.append(dict(fam='block', quad=q, rows=3, row0=m))
    for first in range(len(QUADS) * len(CALL_MASKS)):
        out.append(dict(fam='calls', first=first, depth=CALL_DEPTH[tier]))
    for p in range(N_LONG_SHARDS[tier]):
        out.append(dict(fam='long', tier=tier, part=p, of=N_LONG_SHARDS[tier]))
    for p in range(N_TEXT_SHARDS):
        out.append(dict(fam='text', part=p, of=N_TEXT_SHARDS))
    for p in range(N_VALUE_SHARDS):
        out.append(dict(fam='values', part=p, of=N_VALUE_SHARDS))
    if tier == 'thorough':
        for q in BLOCK4_THOROUGH:
            for m in range(256):
                out.append(dict(fam='block', quad=q, rows=4, row01=m))
    return out


# ----------------------------------------------------------- sheet construction
def _column_groups(cfg):
    """List of column descriptions for a configuration (identity order).

    Each column: dict(h=header, f=row index -> cell, e=emptied in 'config-empty' rows,
                      grp=group name, rep=header occurs more than once, special=bool)."""
    cols = []

    def add(grp, h, f, e=False, special=True):
        cols.append(dict(h=h, f=f, e=e, grp=grp, special=special))

    # ---- ordinary
    o = cfg['ord']
    ordinary = [('name', lambda k: 'sp%d' % k), ('phase', lambda k: 'GSL'[k % 3]),
                ('potentialenergy', lambda k: -14.25 - 0.5 * k), ('symmetrynumber', lambda k: 1 + k % 4),
                ('T_low', lambda k: 200 + 10 * k), ('notes', lambda k: 'note %d' % k),
                (' spaced header ', lambda k: 'sh %d' % k)]
    if o == 'none':
        ordinary = []
    elif o == 'first3':
        ordinary = ordinary[:3]
    elif o == 'spaced-only':
        ordinary = ordinary[-1:]
    for h, f in ordinary:
        e = (o == 'some-empty' and h in ('potentialenergy', 'notes', ' spaced header ')) or \
            (o == 'all-empty-but-name' and h != 'name')
        add('ord', h, f, e, special=False)

    # ---- composition
    c = cfg['comp']
    el = [('element.H', lambda k: 2 + k), ('element.O', lambda k: 1 + k), ('element.C', lambda k: 3 + k)]
    form = ('formula', lambda k: FORMULAS[k % len(FORMULAS)])
    if c in ('el1', 'el2', 'el3', 'el3-mid-empty', 'el2-all-empty'):
        n = int(c[2])
        for j in range(n):
            add('comp', el[j][0], el[j][1], e=(c == 'el3-mid-empty' and j == 1) or c == 'el2-all-empty')
    elif c in ('formula', 'formula-empty'):
        add('comp', form[0], form[1], e=(c == 'formula-empty'))
    elif c == 'formula+el-empty':          # both kinds of column exist, the element cells are never filled
        for j in range(2):
            add('comp', el[j][0], el[j][1], e='always')
        add('comp', form[0], form[1])
    elif c == 'formula-first+el-empty':
        add('comp', form[0], form[1])
        for j in range(2):
            add('comp', el[j][0], el[j][1], e='always')
    elif c == 'el2+formula-empty':
        for j in range(2):
            add('comp', el[j][0], el[j][1])
        add('comp', form[0], form[1], e='always')

    # ---- vibrations / rotations
    v = cfg['vib']
    nv = int(v.split('-')[0])
    for j in range(nv):
        e = (v == '3-mid-empty' and j == 1) or v == '3-all-empty' or (v == '30-sparse' and j % 3 == 1)
        add('vib', 'vib_wavenumber', (lambda k, j=j: 100.5 + 37 * j + k), e)
    r = cfg['rot']
    nr = int(r.split('-')[0])
    for j in range(nr):
        e = (r == '3-first-empty' and j == 0) or r == '1-empty'
        add('rot', 'rot_temperature', (lambda k, j=j: 10.25 * (j + 1) + k), e)

    # ---- lists
    s = cfg['lst']
    la = ('list.a', lambda k: 1 + k)
    la1 = ('list.a.1', lambda k: 'x%d' % k)
    lb = ('list.slopes', lambda k: 3.5 + k)        # a name whose first letters are in the set 'list.'
    if s == 'a,a.1':
        add('lst', *la), add('lst', *la1)
    elif s == 'a':
        add('lst', *la)
    elif s == 'a,a.1,b':
        add('lst', *la), add('lst', *la1), add('lst', *lb)
    elif s == 'b':
        add('lst', *lb)
    elif s == 'a-empty,a.1':
        add('lst', la[0], la[1], e=True), add('lst', *la1)
    elif s == 'a-dup3':
        for j in range(3):
            add('lst', 'list.a', (lambda k, j=j: 10 * j + k))
    elif s == 'a.0,a.1,a.2':
        for j in range(3):
            add('lst', 'list.intervals.%d' % j, (lambda k, j=j: 'y%d_%d' % (j, k)))
    elif s == 'all-empty':
        add('lst', la[0], la[1], e=True), add('lst', la1[0], la1[1], e=True)

    # ---- dictionaries
    d = cfg['dct']
    k1 = ('dict.d.k1', lambda k: 'v%d' % k)
    k2 = ('dict.d.k2', lambda k: 2 + k)
    if d == 'k1,k2':
        add('dct', *k1), add('dct', *k2)
    elif d == 'k1':
        add('dct', *k1)
    elif d == 'k1-empty,k2':
        add('dct', k1[0], k1[1], e=True), add('dct', *k2)
    elif d == 'all-empty':
        add('dct', k1[0], k1[1], e=True), add('dct', k2[0], k2[1], e=True)
    elif d == 'd.k1,e.k1':
        add('dct', *k1), add('dct', 'dict.e.k1', lambda k: 7.5 + k)

    # ---- NASA coefficients
    n = cfg['nasa']

    def low(i):
        return 'nasa.a_low.%d' % i, (lambda k, i=i: (i + 1) * 1.5 + k)

    def high(i):
        return 'nasa.a_high.%d' % i, (lambda k, i=i: -(i + 1) * 0.25 - k)
    if n == 'sparse':
        add('nasa', *low(0)), add('nasa', *low(3)), add('nasa', *high(6))
    elif n in ('low7', 'low7+high7', 'low7-some-empty', 'low7-all-empty'):
        for i in range(7):
            h, f = low(i)
            add('nasa', h, f, e=(n == 'low7-some-empty' and i in (0, 2, 6)) or n == 'low7-all-empty')
        if n == 'low7+high7':
            for i in range(7):
                add('nasa', *high(i))
    elif n == 'high7':
        for i in (6, 5, 4, 3, 2, 1, 0):                 # written right to left on purpose
            add('nasa', *high(i))

    # ---- presets and per-mode models
    sm = cfg['sm']
    if sm != 'none':
        if sm == 'empty':
            add('sm', 'statmech_model', lambda k: 'idealgas', e='always')
        else:
            # further rows walk through the other presets (all are valid)
            base = PRESET_NAMES.index(sm.lower())
            add('sm', 'statmech_model',
                (lambda k, sm=sm, base=base: sm if k == 0 else PRESET_NAMES[(base + k) % len(PRESET_NAMES)]))
    for coord, head in (('trans', 'trans_model'), ('vibm', 'vib_model'), ('rotm', 'rot_model'),
                        ('elecm', 'elec_model'), ('nuclm', 'nucl_model')):
        m = cfg[coord]
        if m == 'none':
            continue
        if m == 'empty':
            add(coord, head, lambda k: 'EmptyMode', e='always')
        else:
            # odd rows hold EmptyMode (documented for every mode), even rows the configured class
            add(coord, head, (lambda k, m=m: m if k % 2 == 0 else 'EmptyMode'))
    return cols


def _order(cols, how):
    if how == 'identity':
        return list(cols)
    if how == 'reversed':
        return list(reversed(cols))
    if how == 'specials-first':
        return [c for c in cols if c['special']] + [c for c in cols if not c['special']]
    if how == 'interleaved':
        return cols[0::2] + cols[1::2]
    if how == 'models-last-reversed':
        models = [c for c in cols if c['grp'] in ('sm', 'trans', 'vibm', 'rotm', 'elecm', 'nuclm')]
        rest = [c for c in cols if c not in models]
        return rest + list(reversed(models))
    raise ValueError(how)


def build_product_case(dev):
    """JSON-able case (explicit headers and cells) of the configuration default+dev."""
    cfg = dict(DEFAULT)
    cfg.update(dev)
    cols = _column_groups(cfg)
    for j, c in enumerate(cols):
        c['j'] = j
    counts = {}
    for c in cols:
        counts[c['h']] = counts.get(c['h'], 0) + 1
    cols = _order(cols, cfg['order'])
    nrows = cfg['rows']
    style = cfg['style']
    headers = []
    for c in cols:
        h = c['h']
        if cfg['hpad'] == 'pad-all' and counts[h] == 1 and h == h.strip():
            h = '  ' + h + ' '
        headers.append(h)
    rows = []
    for k in range(nrows):
        row = []
        for c in cols:
            empty = False
            if c['e'] == 'always':
                empty = True
            elif c['e'] and k % 3 == 0:
                empty = True                          # the configuration's own emptiness pattern
            elif k >= 1 and c['h'] != 'name' and (3 * k + 5 * c['j']) % 7 == 0:
                empty = True                          # further rows: a fixed mask of empty cells
            if empty:
                row.append(None)
                continue
            v = c['f'](k)
            if isinstance(v, str):
                if style == 'pad-strings':
                    v = '  ' + v + ' '
            elif style == 'ints':
                v = int(round(v))
            elif style == 'floats':
                v = float(v) + 0.125
            row.append(v)
        rows.append(row)
    sheet, decoy = None, None
    if cfg['sheet'] == 'custom-second':
        sheet, decoy = 'my data', 'before'
    elif cfg['sheet'] == 'custom-only':
        sheet = 'Spécies 1'
    elif cfg['sheet'] == 'default-decoy-after':
        decoy = 'after'
    # rows read alone for the differential oracle: all of them, except for 60-row sheets at
    # deviation level 3 (first and last six rows; every row is still compared with the reference)
    diff_rows = 'all'
    if nrows == 60 and len(dev) >= 3:
        diff_rows = list(range(6)) + list(range(54, 60))
    return dict(family='product', dev=dict(dev), headers=headers, rows=rows,
                comment=(cfg['comment'] == 'present'), sheet=sheet, decoy=decoy, diff_rows=diff_rows,
                kw=cfg['kw'])


def build_block_case(quad, nrows, mask):
    """Bit (r*4+c) of mask set = cell (r, c) filled."""
    spec = QUADS[quad]
    headers = [h for h, _ in spec]
    rows = [[(spec[c][1][r] if (mask >> (r * 4 + c)) & 1 else None) for c in range(4)]
            for r in range(nrows)]
    return dict(family='block', quad=quad, mask=mask, headers=headers, rows=rows, comment=True,
                sheet=None, decoy=None)


# ------------------------------------------------------------ long family
def _long_group(group, n):
    """(headers in member order, cell function f(member p, row r)) of a group of n members."""
    kind, _, name = group.partition(':')

    def mixed(p, r):
        if p % 3 == 2:
            return 's%d_%d' % (p, r)
        return 10 * p + r if p % 3 == 1 else 10 * p + r + 0.5

    def num(p, r):
        return 100.5 + 37 * p + r
    if kind == 'list.i0':
        return ['list.%s.%d' % (name, i) for i in range(n)], mixed
    if kind == 'list.i1':
        return ['list.%s.%d' % (name, i) for i in range(1, n + 1)], mixed
    if kind == 'list.rep':
        return ['list.%s' % name] * n, mixed
    if kind in ('vib_wavenumber', 'rot_temperature'):
        return [kind] * n, num
    if kind == 'dict.word-keys':
        return ['dict.cov.k%d' % i for i in range(n)], mixed
    if kind == 'dict.numeric-keys':
        return ['dict.lat.%d' % i for i in range(n)], mixed
    if kind == 'element':
        return ['element.%s' % ELEMENT_SYMBOLS[i] for i in range(n)], (lambda p, r: 1 + p + r)
    if kind == 'ordinary':
        return ['p%d' % i for i in range(n)], mixed
    if kind == 'nasa14':
        return (['nasa.a_low.%d' % i for i in range(7)] + ['nasa.a_high.%d' % i for i in range(7)],
                (lambda p, r: (p + 1) * 1.5 + r))
    raise ValueError(group)


def build_long_case(groups, n, order, hpad):
    """Sheet with one (or two) groups of n members (nasa14: always 14) between a few companion
    columns.  Rows: all members filled; each member alone; only members >= 10; only members < 10;
    every third member empty; no member filled."""
    cols = [dict(h='name', g=None, f=lambda r: 'sp%d' % r)]
    comp = [dict(h='list.b.0', g=None, f=lambda r: (r + 0.25) if r % 2 == 0 else None),
            dict(h='dict.d.k1', g=None, f=lambda r: ('v%d' % r) if r % 3 else None),
            dict(h='list.b.1', g=None, f=lambda r: ('w%d' % r) if r % 2 == 0 else None),
            dict(h='potentialenergy', g=None, f=lambda r: (-1.5 * r) if r % 2 else None)]
    sizes = []
    for gi, g in enumerate(groups):
        heads, f = _long_group(g, n)
        sizes.append(len(heads))
        for pidx, h in enumerate(heads):
            cols.append(dict(h=h, g=gi, p=pidx, fm=f))
        cols.extend(comp[2 * gi:2 * gi + 2])
    if len(groups) == 1:
        cols.extend(comp[2:])
    if order == 'reversed':
        cols = cols[::-1]
    elif order == 'interleaved':
        cols = cols[0::2] + cols[1::2]
    elif order != 'identity':
        raise ValueError(order)
    m = max(sizes)
    pats = ['all'] + [('only', q) for q in range(m)] + ['tail', 'head', 'third', 'none']
    rows = []
    for r, pat in enumerate(pats):
        row = []
        for c in cols:
            if c['g'] is None:
                row.append(c['f'](r))
                continue
            q = c['p']
            if pat == 'all':
                fill = True
            elif pat == 'tail':
                fill = q >= 10
            elif pat == 'head':
                fill = q < 10
            elif pat == 'third':
                fill = q % 3 != 1
            elif pat == 'none':
                fill = False
            else:
                fill = (q == pat[1])
            row.append(c['fm'](q, r) if fill else None)
        rows.append(row)
    counts = {}
    for c in cols:
        counts[c['h']] = counts.get(c['h'], 0) + 1
    headers = [('  ' + c['h'] + ' ') if (hpad and counts[c['h']] == 1) else c['h'] for c in cols]
    members = []
    for gi in range(len(groups)):
        pos = {c['p']: j for j, c in enumerate(cols) if c['g'] == gi}
        members.append([pos[q] for q in range(sizes[gi])])
    return dict(family='long', groups=list(groups), n=n, order=order, hpad=bool(hpad), headers=headers, rows=rows,
                comment=True, sheet=None, decoy=None, members=members, diff_rows=[0, m + 1])


def _long_unique_headers(group):
    return group.split(':')[0] not in ('list.rep', 'vib_wavenumber', 'rot_temperature')


def _long_configs(tier):
    """(groups, n, order, hpad) of the long family, in a fixed order."""
    for g in LONG_GROUPS:
        for n in ([14] if g == 'nasa14' else LONG_N):
            for order in LONG_ORDERS:
                yield [g], n, order, False
            if _long_unique_headers(g):
                yield [g], n, 'identity', True
    if tier == 'thorough':
        for g1, g2 in itertools.combinations(LONG_GROUPS, 2):
            if g1.startswith('list.') and g2.startswith('list.') and g1.split(':')[1] == g2.split(':')[1]:
                continue                              # the two groups would share headers
            for n in LONG_N:
                for order in LONG_ORDERS:
                    yield [g1, g2], n, order, False


# ------------------------------------------------------------ text family
def _text_default(j, r):
    """Ordinary content of column j of TEXT_HEADERS in row r."""
    return ['sp%d' % r, 1 + r, 'note %d' % r, 'tag%d' % r, r + 0.5, -1.5 * r - 0.25, 'src%d' % r, 2 + r,
            100.5 + r, 200.5 + r, PRESET_NAMES[r % len(PRESET_NAMES)], 'C' * (1 + r % 3)][j]


def build_text_case(kind, col, order, start=0):
    """kind 'packed': one row per special text, the text in column `col`; 'all': one row per special text, every
    text column holds a special text (rotating); 'single': a one-row sheet with text number `start` in column `col`.
    All other cells hold ordinary content (a fixed sparse mask of them is empty), so that a text cell always has
    filled cells of every kind to its right (order identity) or to its left (reversed)."""
    n = len(SPECIAL_TEXTS)
    tcols = [j for j, _ in TEXT_COLUMNS]
    kinds = dict(TEXT_COLUMNS)
    rows, row_sig, ttags = [], [], set()
    for r in (range(n) if kind != 'single' else [0]):
        row, classes = [], []
        for j in range(len(TEXT_HEADERS)):
            special = None
            if kind == 'all' and j in tcols:
                special = SPECIAL_TEXTS[(r + 7 * tcols.index(j)) % n]
            elif kind != 'all' and j == col:
                special = SPECIAL_TEXTS[(start + r) % n]
            if special is not None:
                row.append(special[1])
                classes.append(special[0])
                ttags.add('text:' + special[0])
                ttags.add('text-col:' + kinds[j])
            elif j != 0 and kind != 'single' and (r + 2 * j) % 5 == 0:
                row.append(None)
            else:
                row.append(_text_default(j, r))
        rows.append(row)
        row_sig.append({'text': classes[0] if len(set(classes)) == 1 else 'several'})
    cols = list(range(len(TEXT_HEADERS)))
    if order == 'reversed':
        cols.reverse()
        rows = [[row[j] for j in cols] for row in rows]
    elif order != 'identity':
        raise ValueError(order)
    ttags.add('text:order-' + order)
    ttags.update({'packed': ['text:first-data-row', 'text:last-data-row'], 'all': ['text:every-text-column'],
                  'single': ['text:one-row-sheet', 'text:first-data-row']}[kind])
    if kind == 'all' or cols.index(col) < len(cols) - 1:
        ttags.add('text:filled-cells-to-the-right')
    return dict(family='text', kind=kind, col=(TEXT_HEADERS[col] if kind != 'all' else 'all'), order=order,
                colkind=(kinds[col].split('-')[-1] if kind != 'all' else 'every-text-column'),
                headers=[TEXT_HEADERS[j] for j in cols], rows=rows, comment=(kind != 'single' or start % 2 == 0),
                sheet=None, decoy=None, diff_rows=[0, len(rows) - 1], row_sig=row_sig, ttags=sorted(ttags))


def _text_configs():
    for order in TEXT_ORDERS:
        for col, _ in TEXT_COLUMNS:
            yield 'packed', col, order, 0
        yield 'all', 0, order, 0
    for t in range(len(SPECIAL_TEXTS)):
        for col in TEXT_SINGLE_COLUMNS:
            yield 'single', col, 'identity', t


# ------------------------------------------------------------ values family
def _val_default(j, r):
    """Ordinary (positive, mid-sized) content of column j of VAL_HEADERS in row r."""
    if j == 0:
        return 'sp%d' % r
    if VAL_HEADERS[j] == 'statmech_model':
        return PRESET_NAMES[r % len(PRESET_NAMES)]
    if j % 2:
        return 2 + j + r                       # Python int
    return 100.5 + 37 * j + r


def _val_class_tags(cls, v):
    return ['val:' + cls, 'val:int-cell' if isinstance(v, int) else 'val:float-cell']


def build_values_case(kind, col, order, kw, start=0):
    """kind 'packed': one row per special value, the value in column `col`; 'ints': the same with the integer
    values only (the column holds nothing but integers); 'all': one row per special value, every numeric column
    holds a special value (rotating); in every fourth row of 'packed' / 'ints' the other columns of the same kind
    are empty, so that the special value alone decides whether the record has the key; 'single': a one-row sheet with value number `start` in column `col`.  All
    other cells hold ordinary positive numbers / text (a fixed sparse mask of them is empty)."""
    values = SPECIAL_VALUES if kind != 'ints' else [sv for sv in SPECIAL_VALUES if isinstance(sv[1], int)]
    n = len(values)
    rows, row_sig, vtags = [], [], set()
    for r in (range(n) if kind != 'single' else [0]):
        row, classes = [], []
        for j in range(len(VAL_HEADERS)):
            special = None
            if kind == 'all' and j in VAL_KINDS:
                special = values[(r + 3 * VAL_COLUMNS.index(j)) % n]
            elif kind != 'all' and j == col:
                special = values[(start + r) % n]
            alone = (kind in ('packed', 'ints') and r % 4 == 3 and j != col and VAL_KINDS.get(j) == VAL_KINDS[col])
            if alone:
                row.append(None)            # the special value is the only filled cell of its group in this row
                vtags.add('val:alone-in-its-group')
            elif special is not None:
                row.append(special[1])
                classes.append(special[0])
                vtags.update(_val_class_tags(*special))
                vtags.add('val-col:' + VAL_KINDS[j])
            elif j != 0 and kind not in ('single', 'ints') and (r + 2 * j) % 5 == 0:
                row.append(None)
            else:
                row.append(_val_default(j, r))
        vib = [row[j] for j in VAL_KINDS if VAL_KINDS[j] == 'vib_wavenumber' and row[j] is not None]
        if vib and all(v <= 0 for v in vib):
            vtags.add('val:all-vib-cells-not-positive')
        rows.append(row)
        row_sig.append({'val': classes[0] if len(set(classes)) == 1 else 'several'})
    cols = list(range(len(VAL_HEADERS)))
    if order == 'reversed':
        cols.reverse()
        rows = [[row[j] for j in cols] for row in rows]
    elif order != 'identity':
        raise ValueError(order)
    comment = (kind != 'single' or start % 2 == 0)
    vtags.add('val:order-' + order)
    vtags.add('val-kw:' + kw)
    vtags.update({'packed': [], 'ints': ['val:integer-only-column'], 'all': ['val:every-numeric-column'],
                  'single': ['val:one-row-sheet']}[kind])
    if not comment:
        vtags.add('val:comment-absent')
    return dict(family='values', kind=kind, col=(VAL_HEADERS[col] if kind != 'all' else 'all'), order=order,
                colkind=(VAL_KINDS[col] if kind != 'all' else 'every-numeric-column'), kw=kw,
                headers=[VAL_HEADERS[j] for j in cols], rows=rows, comment=comment, sheet=None, decoy=None,
                diff_rows=[0, len(rows) - 1], row_sig=row_sig, vtags=sorted(vtags))


def _values_configs():
    for kw in VAL_KW:
        for order in VAL_ORDERS:
            for col in VAL_COLUMNS:
                yield 'packed', col, order, kw, 0
            yield 'all', 0, order, kw, 0
        for col in VAL_COLUMNS:
            yield 'ints', col, 'identity', kw, 0
    for t in range(len(SPECIAL_VALUES)):
        for col in VAL_SINGLE_COLUMNS:
            for kw in VAL_KW_SINGLE:
                yield 'single', col, 'identity', kw, t


# ------------------------------------------------------------ running one case
_TMP = {}


def _tmpdir():
    d = _TMP.get(os.getpid())
    if d is None or not os.path.isdir(d):
        d = tempfile.mkdtemp(prefix='c15_')
        _TMP.clear()
        _TMP[os.getpid()] = d
        _TMP['n'] = 0
    return d


def _cleanup():
    d = _TMP.get(os.getpid())
    if d and os.path.isdir(d):
        shutil.rmtree(d, ignore_errors=True)
    _TMP.clear()


def write_workbook(case, rows=None):
    import openpyxl
    d = _tmpdir()
    _TMP['n'] += 1
    path = os.path.join(d, 'w%d.xlsx' % _TMP['n'])
    wb = openpyxl.Workbook(write_only=True)
    headers = case['headers']

    def text_cells(ws, r):
        # openpyxl stores a string that begins with '=' as a formula unless told otherwise: keep it a text cell
        out = []
        for v in r:
            if isinstance(v, str) and v.startswith('='):
                from openpyxl.cell import WriteOnlyCell
                v = WriteOnlyCell(ws, v)
                v.data_type = 's'
            out.append(v)
        return out

    def fill(ws, data):
        ws.append(list(headers))
        if case['comment']:
            ws.append(['comment'] + [None] * (len(headers) - 1))
        for r in data:
            ws.append(text_cells(ws, r))

    # a decoy sheet is a well-formed sheet with other numbers and one more row than the real one
    real = case['rows'] if rows is None else rows
    first = real[0] if real else [None] * len(headers)
    decoy_rows = [[(c + 1000 if isinstance(c, (int, float)) else c) for c in first]
                  for _ in range(len(real) + 1)]
    if case.get('decoy') == 'before':
        fill(wb.create_sheet('decoy'), decoy_rows)
    fill(wb.create_sheet(case['sheet'] or 'Sheet1'), case['rows'] if rows is None else rows)
    if case.get('decoy') == 'after':
        fill(wb.create_sheet('decoy'), decoy_rows)
    wb.save(path)
    return path


# options of the values family that are not the documented defaults (they "apply for the vib_outcar header")
VAL_OPTIONS = {'cutoff50+imag-false': dict(min_frequency_cutoff=VAL_CUTOFF, include_imaginary=False),
               'cutoff0+imag-true': dict(min_frequency_cutoff=0., include_imaginary=True),
               'cutoff-int0+imag-false': dict(min_frequency_cutoff=0, include_imaginary=False),
               'cutoff-none+imag-true': dict(min_frequency_cutoff=None, include_imaginary=True)}


def _reader(fresh):
    """The real read_excel.  fresh=True re-executes the module pmutt.io.excel first, so that
    every sheet is read in the module state of a new process: a case then never depends on the
    sheets the shard read before it (module-level state kept between calls is the business of
    the 'calls' family, whose cases carry the whole history of calls)."""
    import importlib
    import pmutt.io.excel as m
    if fresh:
        m = importlib.reload(m)
    return m.read_excel


def read_real(case, sig, rows=None, fresh=True):
    """Write the workbook, read it with the real reader, remove it."""
    read_excel = _reader(fresh)
    path = write_workbook(case, rows)
    kwargs = {}
    if not case['comment']:
        kwargs['skiprows'] = []
    if case['sheet'] is not None:
        kwargs['sheet_name'] = case['sheet']
    how = case.get('kw', 'omitted')
    io = path
    if how == 'explicit-defaults':
        # every documented default given explicitly (fresh objects: nothing shared with the signature)
        kwargs.setdefault('skiprows', [1])
        kwargs.update(header=0, delimiter='.', min_frequency_cutoff=0., include_imaginary=False)
        if case['sheet'] is None:
            kwargs['sheet_name'] = 0
    elif how == 'sheet-index+pathlib':
        import pathlib
        io = pathlib.Path(path)
        kwargs['sheet_name'] = 1 if case.get('decoy') == 'before' else 0
    args = ()
    if how == 'positional-defaults':
        # skiprows, header, delimiter, min_frequency_cutoff, include_imaginary by position
        args = (kwargs.pop('skiprows', [1]), 0, '.', 0., False)
    elif how in VAL_OPTIONS:
        kwargs.update(VAL_OPTIONS[how])
    try:
        return read_excel(io, *args, **kwargs)
    except Exception as e:
        sig.update(_blame(e))
        raise
    finally:
        try:
            os.remove(path)
        except OSError:
            pass


def _blame(e):
    """Which column / cell was being dispatched when the reader raised (from its frame)."""
    tb = e.__traceback__
    out = {}
    while tb is not None:
        fr = tb.tb_frame
        if fr.f_code.co_name == 'read_excel' and fr.f_code.co_filename.endswith(os.path.join('io', 'excel.py')):
            col, cell = fr.f_locals.get('col'), fr.f_locals.get('cell_data')
            if isinstance(col, str):
                out['col'] = re.sub(r'\s*\.\d+$', '', col.strip())
            if cell is not None:
                out['cell'] = str(cell)[:40]
        tb = tb.tb_next
    return out


def _sig0(case):
    s = {'family': case['family']}
    if case['family'] == 'block':
        s['quad'] = case['quad']
    if case['family'] == 'long':
        s['group'] = '+'.join(g.split(':')[0] for g in case['groups'])
    if case['family'] == 'text':
        s['textcol'] = case['colkind']
    if case['family'] == 'values':
        s['valcol'] = case['colkind']
        s['kw'] = case['kw']
    return s


def _key_kind(key):
    return key


def case_tags(case):
    """Reader branches a case is built to reach, computed from the explicit headers and cells."""
    tags = set()
    headers, rows = case['headers'], case['rows']
    trimmed = [h.strip() for h in headers]
    data = ref.data_rows(rows)
    n = len(data)
    if case['family'] == 'product':
        tags.add('rows:%d' % n)
    tags.add('comment:present' if case['comment'] else 'comment:absent')
    if case['sheet'] is None:
        tags.add('sheet:default')
    else:
        tags.add('sheet:named-second' if case.get('decoy') == 'before' else 'sheet:named')
    if case.get('decoy') == 'after':
        tags.add('sheet:decoy-after')
    counts = {}
    for h in trimmed:
        counts[h] = counts.get(h, 0) + 1
    for r, row in enumerate(rows):
        if all(c is None for c in row):
            if r < n:
                tags.add('row:first-without-cells' if r == 0 else 'row:interior-without-cells')
            else:
                tags.add('row:last-without-cells')
    for r, row in enumerate(data):
        seen_explicit = False
        seen_preset = False
        for h, raw, cell in zip(trimmed, headers, row):
            if cell is None:
                tags.add('cell:empty')
                continue
            if isinstance(cell, str) and cell != cell.strip():
                tags.add('cell:padded-string')
            if isinstance(cell, int):
                tags.add('cell:int')
            if isinstance(cell, float):
                tags.add('cell:float')
            p = h.split('.')
            special = True
            if p[0] == 'element':
                tags.add('col:element')
            elif h == 'formula':
                tags.add('col:formula')
            elif h == 'vib_wavenumber':
                tags.add('col:vib_wavenumber')
                tags.add('vib:x%d' % counts[h])
            elif h == 'rot_temperature':
                tags.add('col:rot_temperature')
                tags.add('rot:x%d' % counts[h])
            elif p[0] == 'list':
                tags.add('col:list.i' if len(p) == 3 else 'col:list')
                if counts[h] > 1:
                    tags.add('col:list-repeated')
            elif p[0] == 'dict':
                tags.add('col:dict')
                if len({x.split('.')[1] for x in trimmed if x.startswith('dict.')}) > 1:
                    tags.add('dict:two-names')
            elif p[0] == 'nasa':
                tags.add('col:nasa.' + p[1])
            elif h == 'statmech_model':
                tags.add('preset:' + cell.strip().lower())
                seen_preset = True
                if seen_explicit:
                    tags.add('preset:explicit-column-before')
            elif h in ref.MODE_CLASSES:
                name = cell.strip()
                tags.add('%s:%s' % (h, 'EmptyMode' if name.lower() == 'emptymode' else name))
                seen_explicit = True
                if seen_preset:
                    tags.add('preset:explicit-column-after')
            else:
                special = False
                tags.add('col:ordinary')
                if raw != h:
                    tags.add('col:ordinary-padded-header')
            if special and raw != h:
                tags.add('col:special-padded-header')
    # a group whose cells are all empty in some row while the columns exist
    groups = {}
    for j, h in enumerate(trimmed):
        p = h.split('.')
        g = {'element': 'elements', 'list': 'list.' + (p[1] if len(p) > 1 else ''),
             'dict': 'dict.' + (p[1] if len(p) > 1 else ''),
             'nasa': 'nasa.' + (p[1] if len(p) > 1 else '')}.get(p[0], h)
        groups.setdefault(g, []).append(j)
    for row in data:
        for g, js in groups.items():
            if len(js) > 1 and all(row[j] is None for j in js) and any(c is not None for c in row):
                tags.add('group:all-cells-empty')
    if case['family'] == 'block':
        for c in range(len(headers)):
            for r in range(1, n):
                if data[r][c] is None and data[r - 1][c] is not None:
                    tags.add('block:empty-below-filled')
                if data[r][c] is not None and data[r - 1][c] is None:
                    tags.add('block:filled-below-empty')
    if case['family'] == 'product':
        for o in ('identity', 'reversed', 'specials-first', 'interleaved', 'models-last-reversed'):
            if case['dev'].get('order', 'identity') == o:
                tags.add('order:' + o)
        tags.add('kw:' + case.get('kw', 'omitted'))
    if case['family'] == 'text':
        tags.update(case['ttags'])
    if case['family'] == 'values':
        tags.update(case['vtags'])
    if case['family'] == 'long':
        for g in case['groups']:
            tags.add('long:' + g)
        tags.add('long:n%d' % case['n'])
        tags.add('long:order-' + case['order'])
        if case['hpad']:
            tags.add('long:padded-headers')
        if len(case['groups']) > 1:
            tags.add('long:two-groups')
        for members in case['members']:
            for row in data:
                cells = [row[j] for j in members]
                if any(c is not None for c in cells[10:]):
                    tags.add('long:cell-at-member>=10')
                    if all(c is None for c in cells[:10]):
                        tags.add('long:only-members>=10-filled')
                if sum(c is not None for c in cells) == 1 and cells[-1] is not None:
                    tags.add('long:last-member-alone')
    return tags


_SINGLE_CACHE = {}


def _single_row_record(case, row, sig):
    """Canonical record of the one-row sheet that holds only `row` (same headers and options)."""
    key = (tuple(case['headers']), tuple((type(c).__name__, c) for c in row), case['comment'],
           case['sheet'], case.get('decoy'), case.get('kw', 'omitted'))
    if key in _SINGLE_CACHE:
        return _SINGLE_CACHE[key], False
    out = read_real(case, sig, rows=[row])
    rec = [ref.canon_record(r) for r in out]
    if len(_SINGLE_CACHE) < 4096:
        _SINGLE_CACHE[key] = rec
    return rec, True


def _scribble(records):
    """What a caller may legitimately do with the records it was given: edit them in place."""
    import numpy as _np
    for rec in records:
        for k, v in list(rec.items()):
            if isinstance(v, dict):
                for kk in list(v):
                    try:
                        v[kk] = v[kk] + 1
                    except TypeError:
                        v[kk] = 'scribbled'
                v['Zz'] = 99
            elif isinstance(v, list):
                v.append(12345)
            elif isinstance(v, _np.ndarray):
                try:
                    v.fill(-777)
                except (TypeError, ValueError):
                    pass
        rec['scribbled_by_caller'] = True


def _check(sheet, ctx, sig, case=None, fresh=True, differential=True, scribble=False):
    """Read one sheet and compare it with the reference; `case` is what a violation records
    (the sheet itself, or the whole history of calls it belongs to)."""
    if case is None:
        case = sheet
    headers, rows = sheet['headers'], sheet['rows']
    exp = ref.expected_records(headers, rows)
    for t in case_tags(sheet):
        ctx.tag(t)
    out = read_real(sheet, sig, fresh=fresh)
    ctx.trace()
    ctx.trans(len(ref.data_rows(rows)))                 # one reader step per data row
    ok = ctx.equal('one record per data row', len(out), len(exp), sig, case)
    if not ok:
        return False
    obs = [ref.canon_record(r) for r in out]
    if 'name' in [h.strip() for h in headers] and len(exp) > 1:
        ok &= ctx.equal('records in row order', [r.get('name') for r in obs], [r.get('name') for r in exp],
                        sig, case)
    for i, (o, e) in enumerate(zip(obs, exp)):
        ctx.evals()
        diff = ref.first_difference(o, e)
        s = dict(sig)
        if sheet.get('row_sig'):
            s.update(sheet['row_sig'][i])              # text family: which class of special text the row holds
        if diff is not None:
            s.update(key=diff[0], kind=diff[1])
        ok &= ctx.equal('record has exactly the keys of the non-empty cells', sorted(o), sorted(e), s, case)
        ok &= ctx.equal('record values follow the documented column rules', o, e, s, case)
        bad = sorted(k for k, v in o.items() if ref.has_empty(v))
        s2 = dict(sig)
        if bad:
            s2.update(key=bad[0])
        ok &= ctx.true('no empty cell appears in a record', not bad, s2, case, observed=bad, expected=[])
    if scribble:
        _scribble(out)          # the next call of the history must not see any of this
    # differential row isolation
    data = ref.data_rows(rows)
    if differential and len(data) > 1:
        only = sheet.get('diff_rows', 'all')
        for i, row in enumerate(data):
            if only != 'all' and i not in only:
                continue
            if all(c is None for c in row):
                ok &= ctx.true('row without cells gives an empty record', obs[i] == {}, sig, case,
                               observed=obs[i], expected={})
                continue
            single, was_read = _single_row_record(sheet, row, sig)
            if was_read:
                ctx.trace()
            ctx.tag('diff:one-row-sheet')
            ctx.evals()
            s = dict(sig)
            if len(single) == 1:
                diff = ref.first_difference(obs[i], single[0])
                if diff is not None:
                    s.update(key=diff[0], kind=diff[1])
            ok &= ctx.equal('row i of an n-row sheet gives the record of its one-row sheet', [obs[i]], single,
                            s, case)
    return ok


def _check_calls(case, ctx, sig):
    """History of read_excel calls in ONE module state: every call must give the reference
    records of its own sheet, whatever was read before."""
    ok = True
    sheets = case['sheets']
    ctx.tag('calls:depth%d' % len(sheets))
    for n, sheet in enumerate(sheets):
        sig['step'] = 'first' if n == 0 else 'later'
        for prev in sheets[:n]:
            if prev['headers'] == sheet['headers'] and any(
                    a is not None and b is None for ra, rb in zip(prev['rows'], sheet['rows'])
                    for a, b in zip(ra, rb)):
                ctx.tag('calls:empty-where-earlier-call-had-a-value')
        ok &= bool(_check(sheet, ctx, sig, case=case, fresh=(n == 0), differential=False, scribble=True))
        ctx.trans()
    return ok


def check_case(case, ctx):
    """Replay entry point (also used by the explorer): evaluates one explicit sheet."""
    sig = _sig0(case)
    res = {}

    def fn(case_, ctx_):
        if case_['family'] == 'calls':
            res['ok'] = _check_calls(case_, ctx_, sig)
        else:
            res['ok'] = _check(case_, ctx_, sig)
    try:
        done = ctx.run_case(fn, case, sig)
    finally:
        if ctx.replay:
            _cleanup()
    return bool(done and res.get('ok'))


# --------------------------------------------------------------------- shards
_DEFAULT_TAGS = []


def run_shard(shard, ctx):
    try:
        if shard['fam'] == 'product':
            _run_product(shard, ctx)
        elif shard['fam'] == 'calls':
            _run_calls(shard, ctx)
        elif shard['fam'] == 'long':
            _run_long(shard, ctx)
        elif shard['fam'] == 'text':
            _run_text(shard, ctx)
        elif shard['fam'] == 'values':
            _run_values(shard, ctx)
        else:
            _run_block(shard, ctx)
    finally:
        _cleanup()


def _run_product(shard, ctx):
    if not _DEFAULT_TAGS:
        _DEFAULT_TAGS.append(case_tags(build_product_case({})))
    default_tags = _DEFAULT_TAGS[0]
    for n, dev in enumerate(_configs(shard['level'])):
        if n % shard['of'] != shard['part']:
            continue
        case = build_product_case(dev)
        ctx.state(('p', case['headers'], case['rows'], case['comment'], case['sheet'], case['decoy'], case['kw']))
        check_case(case, ctx)
        if case_tags(case) != default_tags:
            ctx.nontrivial(('p', sorted(dev.items())))
        if len(dev) == shard['level']:
            ctx.sample(case, limit=1)


def _run_long(shard, ctx):
    for k, (groups, n, order, hpad) in enumerate(_long_configs(shard['tier'])):
        if k % shard['of'] != shard['part']:
            continue
        case = build_long_case(groups, n, order, hpad)
        key = ('l', groups, n, order, hpad)
        ctx.state(key)
        check_case(case, ctx)
        ctx.nontrivial(key)             # > 10 members: a branch the default sheet never reaches
        if n == 30 and order == 'interleaved':
            ctx.sample(case, limit=1)


def _run_text(shard, ctx):
    for k, (kind, col, order, start) in enumerate(_text_configs()):
        if k % shard['of'] != shard['part']:
            continue
        case = build_text_case(kind, col, order, start)
        key = ('t', kind, col, order, start)
        ctx.state(key)
        check_case(case, ctx)
        ctx.nontrivial(key)             # a special character in a text cell: never in the default sheet
        if kind == 'all':
            ctx.sample(case, limit=1)


def _run_values(shard, ctx):
    for k, (kind, col, order, kw, start) in enumerate(_values_configs()):
        if k % shard['of'] != shard['part']:
            continue
        case = build_values_case(kind, col, order, kw, start)
        key = ('v', kind, col, order, kw, start)
        ctx.state(key)
        check_case(case, ctx)
        ctx.nontrivial(key)             # a negative / zero / tiny / huge number: never in the default sheet
        if kind == 'all' and kw == 'omitted':
            ctx.sample(case, limit=1)


def _run_block(shard, ctx):
    nrows = shard['rows']
    if nrows == 3:
        fixed, free_bits, shift = shard['row0'], 8, 4
    else:
        fixed, free_bits, shift = shard['row01'], 8, 8
    for rest in range(1 << free_bits):
        mask = fixed | (rest << shift)
        case = build_block_case(shard['quad'], nrows, mask)
        ctx.state(('b', shard['quad'], nrows, mask))
        check_case(case, ctx)
        tg = case_tags(case)
        if 'block:empty-below-filled' in tg:
            ctx.nontrivial(('b', shard['quad'], nrows, mask))
        if rest == 0b10100101:
            ctx.sample(case, limit=1)


def _call_sheets():
    """Alphabet of the 'calls' family: one-row sheets of every quadruple, full and half filled."""
    out = []
    for q in QUADS:
        for mask in CALL_MASKS:
            c = build_block_case(q, 1, mask)
            c['family'] = 'calls-sheet'
            out.append(c)
    return out


def _run_calls(shard, ctx):
    """BFS over histories of calls of depth <= shard['depth'] that start with sheet shard['first']."""
    sheets = _call_sheets()
    frontier = [[shard['first']]]
    for depth in range(1, shard['depth'] + 1):
        nxt = []
        for hist in frontier:
            case = dict(family='calls', sheets=[sheets[i] for i in hist])
            ctx.state(('c', hist))
            good = check_case(case, ctx)
            if depth > 1:
                ctx.nontrivial(('c', hist))
            if depth == shard['depth']:
                ctx.sample(case, limit=1)
            if good and depth < shard['depth']:
                nxt += [hist + [j] for j in range(len(sheets))]   # a violated history is not extended
        frontier = nxt


LEVEL_TEXT = ('Deviation-bounded product enumeration of worksheet descriptions (20 coordinates: ordinary and '
              'special column groups with their emptiness patterns, column order, cell style, header padding, '
              '1/2/3/60 rows, comment row, sheet layout, how options are passed), complete at 2 (quick) / 3 (thorough) deviations from '
              'the default sheet, plus all 2^12 (thorough also 2^16) emptiness patterns of a rows x 4 block for '
              'each column quadruple, plus BFS over histories of 2 (thorough 3) reader calls in one module state, '
              'plus, for each of 16 indexed / repeatable header kinds, every member count 11-30 in three column '
              'orders (thorough: every pair of kinds in one sheet), plus text cells holding each character / word that '
              'is special to table readers in every free-text column with filled cells on both sides, plus numeric '
              'cells of every sign / zero / denormal / huge magnitude in every numeric column under every way of giving '
              'the vib_outcar-only options; '
              'every sheet is written with openpyxl and read by the real read_excel; '
              'records compared key by key with a documentation-derived reference and, row by row, with the '
              'one-row sheet holding only that row.')
LEVEL_NOTE = ('Cell values come from fixed per-column formulas; strings that pandas reads as missing, '
              'atoms/vib_outcar columns and list/dict names containing another special word are outside '
              'the alphabet; a row of a multi-row sheet is compared with its one-row sheet for every row.')
TECHNIQUE = ('deviation-bounded exhaustive product enumeration + exhaustive emptiness patterns of a row block, '
             'executed on the implementation, reference-model and differential oracles')
