"""C04 - values with units equal the dimensionless values times R (and T) in that unit.

Shape B: deviation-bounded product enumeration around one base point per *kind* of model
(mode, statistical-mechanical species, empirical polynomial, reaction), plus the full product
instance x quantity x unit (x reaction form x rev x act) with default options.

Every case executes the real dimensional getter `get_X(units=u, **o)` and its dimensionless
twin `get_XoR[T](**o)` on a freshly built object and compares them through a reference gas
constant computed here from `pmutt.constants.R` (and, for per-mass units, the composition,
`pmutt.constants.atomic_weight` and the mass entries of `convert_unit`) - never through
`pmutt._get_R_adj`.
"""
import copy
import inspect
import itertools

import numpy as np

from pmc.ref import c04_units

ID = 'C04'
RULE = ('cases = (instance, quantity, unit, T shape, P, x, S_elements, use_references, verbose, include_ZPE, '
        'per-species keyword block, reaction form, rev, act, del_m); all cases with at most k axes away from the base '
        'point of each kind (mode / species / empirical / reaction), plus the full product instance x quantity '
        'x unit (x form x rev x act) with default options, plus every wrapper x T shape x single option; a case is distinct by its full tuple and non-trivial '
        'when it uses a non-molar unit, an array/default T, a reaction form, or an option that changes the '
        'dimensionless value; T shapes include python int, integer-dtype, descending, unsorted-with-repeats, '
        'segment-boundary arrays and a python list; del_m omitted / 2 / 0 / None passed explicitly; every case '
        'repeats its call after overwriting the first result, compares its arguments with a copy taken before, '
        'and (array T) edits the array in place and calls again; plus two-object histories '
        '(how, A, B, quantity, form, unit): A, B, A again, then A.elements edited in place - B a separately '
        'built object, a deepcopy or a to_dict/from_dict copy edited after creation; plus a unit sweep: every '
        'wrapper x T shape x (no option | single option) x every unit string that some instance STORES '
        '(Shomate.units: J/mol/K, kJ/mol/K, cal/mol/K, eV/K) and one per-mass unit, so that each object is asked '
        'in exactly its own stored unit and in the others, with every option; plus an explicit-value sweep: every '
        'wrapper x T shape x unit x one boolean / optional option (S_elements, use_references, verbose, include_ZPE, '
        'rev, act, raise_error, raise_warning) passed EXPLICITLY as False, as None or as its default - the values '
        'the option axes (omitted | switched on) never pass; plus a composition-route sweep (f): species built from an '
        'ASE Atoms object next to / instead of `elements` (Atoms = cell of an adsorbate on a 12-atom slab with the '
        'adsorbate or adsorbate + one slab atom stated; Atoms agreeing with `elements`; Atoms alone) and empirical '
        'objects made by from_model (explicit elements disagreeing with model.elements; inherited from the model; '
        'model class + atoms + elements through a preset) x quantity x unit x (no option | one option), the '
        'reference molar mass and the S_elements shift computed from the composition the check handed over; '
        'and the two-object histories over these instances')
ASSUMPTIONS = ['the gas constant and the mass conversion factors are read from pmutt.constants (their accuracy '
               'is property C12); the reference combines them independently of pmutt._get_R_adj; only the RATIO '
               'between two table entries is also compared with SI conversion factors (pmc/ref/c04_units.py, 1e-7)',
               'one representative parameter set per model class (listed in bounds.instances)',
               'array temperatures only for the classes documented to accept them (Nasa, Nasa9, Shomate)',
               'a unit string outside the gas-constant table is outside the quantifier and is not explored']
EXPLANATION = ('deviation-bounded exhaustive product enumeration on the implementation; every case is an execution '
               'of the real dimensional getter next to its dimensionless twin')

# ------------------------------------------------------------------ alphabet
R_KEYS = ['J/mol/K', 'kJ/mol/K', 'L kPa/mol/K', 'cm3 kPa/mol/K', 'm3 Pa/mol/K', 'cm3 MPa/mol/K',
          'm3 bar/mol/K', 'L bar/mol/K', 'L torr/mol/K', 'cal/mol/K', 'kcal/mol/K', 'L atm/mol/K',
          'cm3 atm/mol/K', 'eV/K', 'Eh/K', 'Ha/K']
MASS_UNITS = ['g', 'kg', 'amu', 'lbs']
MOLAR = [u for u in R_KEYS if '/mol/' in u]
PER_MASS = [u.replace('/mol/', '/%s/' % m) for u in MOLAR for m in MASS_UNITS]
PER_MASS_SHORT = ['J/%s/K' % m for m in MASS_UNITS]
BASE_UNIT = 'kJ/mol/K'

ENTROPY_LIKE = ['Cv', 'Cp', 'S']
ENERGY_LIKE = ['U', 'E', 'H', 'F', 'G']
T_SCALAR = 500.0
T_DEFAULT = 298.15
T_VALUES = {'T500': 500.0, 'T298': 298.15, 'arr1': [500.0], 'arr3': [300.0, 500.0, 1800.0],
            # added after the seeded changes (see notes): integer-typed, unsorted, repeated, list, seam temperatures
            'Tint': 500,                                   # python int
            'desc3': [1800.0, 500.0, 300.0],               # descending float array
            'mix5': [500.0, 1800.0, 300.0, 1800.0, 500.0],  # unsorted with repeated entries
            'int3': [300, 500, 1800],                      # integer-dtype array
            'list3': [1800.0, 300.0, 500.0],               # a python list (not an ndarray), unsorted
            'seam3': [1000.0, 1610.97, 300.0]}             # the segment boundaries of the Nasa9 / Nasa instances, unsorted
T_ARRAYS_NEW = ['desc3', 'mix5', 'int3', 'list3', 'seam3']
T_SIG = {'arr1': 'array', 'arr3': 'array', 'Tdef': 'default', 'Tint': 'scalar-int', 'desc3': 'array-unsorted',
         'mix5': 'array-unsorted', 'seam3': 'array-unsorted', 'int3': 'array-int', 'list3': 'list'}
T_TAG = {'arr1': 'T:array1', 'arr3': 'T:array3', 'Tint': 'T:scalar-int', 'desc3': 'T:array-descending',
         'mix5': 'T:array-unsorted-repeated', 'seam3': 'T:array-seam', 'int3': 'T:array-int', 'list3': 'T:list'}

KINDS = ['mode', 'species', 'empirical', 'reaction']
INSTANCES = {
    'mode': ['HarmonicVib', 'FreeTrans', 'QRRHOVib', 'EinsteinVib', 'DebyeVib', 'RigidRotor',
             'GroundStateElec', 'EmptyNucl', 'EmptyMode', 'ConstantMode', 'LSR', 'PiecewiseCovEffect',
             'GasPressureAdj'],
    'species': ['sm_gas', 'sm_ads', 'sm_ref', 'sm_cov', 'sm_noel', 'sm_const', 'sm_int'],
    'empirical': ['nasa_gas', 'nasa_surf', 'nasa_noel', 'nasa9_gas', 'shomate_gas', 'shomate_surf',
                  'nasa_plain', 'nasa9_plain', 'shomate_plain', 'shomate_int',
                  # objects that STORE a unit string other than the library default (Shomate.units)
                  'shomate_kJ', 'shomate_cal_surf', 'shomate_eV'],
    'reaction': ['rxn_sm_ts', 'rxn_sm', 'rxn_nasa', 'rxn_mixed', 'rxn_bep', 'chemkin_ts', 'chemkin',
                 'surf_ts', 'surf', 'chemkin_ts_low', 'surf_ts_low', 'rxn_int_ts'],
}
# ---- composition given through more than one route (fifth round of seeded changes).  Every instance above
# receives its composition through `elements=` alone.  A species is just as often built from an ASE Atoms object
# (`atoms=`, the calculation cell) together with - or instead of - `elements`, and an empirical object from a
# model that has a composition of its own (`from_model(model, elements=...)`, documented: "if not passed,
# model.elements will be used").  ROUTE_INSTANCES = every combination (second source absent | agreeing |
# disagreeing: larger, or sharing an element with the stated composition) x (explicit elements given | omitted);
# meta['elements'] is the composition the CHECK handed over (for `atoms` alone: counted from the chemical
# symbols of the Atoms object), never read back from the object.  They are explored by sweep (f) and by the
# two-object histories of group 'route', not by the deviation sets.
ROUTE_INSTANCES = {
    'species': ['sm_atoms_slab', 'sm_atoms_part', 'sm_atoms_same', 'sm_atoms_only'],
    'empirical': ['nasa_fm_explicit', 'nasa_fm_inherit', 'nasa_fm_class', 'shomate_fm_class', 'shomate_fm_inherit',
                  'nasa9_fm_class'],
}
ROUTE_OF = {'sm_atoms_slab': 'atoms+elements:disagree', 'sm_atoms_part': 'atoms+elements:disagree',
            'sm_atoms_same': 'atoms+elements:agree', 'sm_atoms_only': 'atoms-only',
            'nasa_fm_explicit': 'from_model:explicit-disagrees-with-model', 'nasa_fm_inherit': 'from_model:inherited',
            'nasa_fm_class': 'from_model:class+atoms+elements', 'shomate_fm_class': 'from_model:class+atoms+elements',
            'shomate_fm_inherit': 'from_model:inherited', 'nasa9_fm_class': 'from_model:class+atoms+elements'}
ROUTE_UNITS = {'quick': R_KEYS + PER_MASS_SHORT + ['cal/kg/K', 'L atm/lbs/K', 'kcal/amu/K'], 'thorough': R_KEYS + PER_MASS}
ROUTE_OPT_UNITS = [BASE_UNIT, 'J/mol/K', 'cal/mol/K', 'eV/K', 'J/g/K']
QUANTITIES = {
    'mode': ['H', 'Cv', 'Cp', 'U', 'S', 'F', 'G'],
    'species': ['H', 'Cv', 'Cp', 'U', 'E', 'S', 'F', 'G'],
    'empirical': ['H', 'Cv', 'Cp', 'U', 'S', 'F', 'G'],
    'reaction': ['H', 'Cv', 'Cp', 'U', 'E', 'S', 'F', 'G'],
}
UNITS = {
    'mode': R_KEYS + PER_MASS_SHORT,
    'species': R_KEYS + PER_MASS,
    'empirical': R_KEYS + PER_MASS,
    'reaction': R_KEYS + PER_MASS_SHORT,
}
AXES = ['inst', 'q', 'unit', 'T', 'P', 'x', 'sel', 'uref', 'verb', 'zpe', 'kw', 'form', 'rev', 'act', 'delm', 'xopt']
OPTION_AXES = ['P', 'x', 'sel', 'uref', 'verb', 'zpe', 'kw', 'rev', 'act', 'delm', 'xopt']
SWEEP_AXES = ['P', 'x', 'sel', 'uref', 'verb', 'zpe', 'kw', 'delm']
OPTION_NAME = dict(P='P', x='x', sel='S_elements', uref='use_references', verb='verbose', zpe='include_ZPE',
                   kw='kwblock', rev='rev', act='act', delm='del_m', xopt='explicit')
FORMS = ['delta', 'state:reactants', 'state:products', 'state:ts', 'act']


def _base(kind):
    return dict(inst=INSTANCES[kind][0], q='H', unit=BASE_UNIT, T='T500', P=None, x=None, sel=False,
                uref=True, verb=False, zpe=False, kw=False,
                form='delta' if kind == 'reaction' else 'plain', rev=False, act=False, delm=None, xopt=None)


def _alts(kind):
    a = dict(inst=INSTANCES[kind][1:], q=QUANTITIES[kind][1:],
             unit=[u for u in UNITS[kind] if u != BASE_UNIT],
             T=['T298', 'Tdef', 'Tint'] + (['arr1', 'arr3'] + T_ARRAYS_NEW if kind == 'empirical' else []),
             P=[0.1, 30.0, 2], x=[0.3, 0.0], sel=[True], uref=[False], verb=[True], zpe=[True], kw=[True])
    if kind == 'reaction':
        # del_m: 2 and 0 explicit numbers, 'None' = None passed explicitly (the library then derives the
        # molecularity change itself); the axis value None means the argument is omitted (default 1)
        a.update(form=FORMS[1:], rev=[True], act=[True], delm=[2, 0, 'None'])
    return a


DEVIATIONS = {'quick': 3, 'thorough': 5}

# ---- unit strings that an object STORES (third round of seeded changes).  Shomate keeps the unit its
# polynomial was fitted in (`Shomate.units`, default 'J/mol/K'); a getter may treat the request for exactly
# that string differently.  STORED_UNIT names, per instance, the unit string it (or a member species) stores;
# evaluate() verifies the table against the live object.  UNIT_SWEEP = every stored unit of the alphabet
# (asked of EVERY instance: its own stored unit as well as the others') plus one per-mass form.
STORED_UNIT = {'shomate_gas': 'J/mol/K', 'shomate_surf': 'J/mol/K', 'shomate_plain': 'J/mol/K',
               'shomate_int': 'J/mol/K', 'shomate_kJ': 'kJ/mol/K', 'shomate_cal_surf': 'cal/mol/K',
               'shomate_eV': 'eV/K', 'rxn_mixed': 'J/mol/K',
               'shomate_fm_class': 'J/mol/K', 'shomate_fm_inherit': 'J/mol/K'}
UNIT_SWEEP = {
    'mode': ['J/mol/K', 'cal/mol/K', 'eV/K'],
    'species': ['J/mol/K', 'cal/mol/K', 'eV/K', 'J/g/K'],
    'empirical': ['J/mol/K', 'cal/mol/K', 'eV/K', 'J/g/K'],
    'reaction': ['J/mol/K', 'cal/mol/K', 'eV/K'],
}       # BASE_UNIT ('kJ/mol/K', stored by shomate_kJ) is the unit of the option sweep (c) already
assert sorted(set(STORED_UNIT.values()) - {BASE_UNIT}) == sorted(UNIT_SWEEP['mode'])
UNIT_SWEEP_T = {'quick': {'mode': ['T500'], 'species': ['T500'], 'empirical': ['T500', 'arr3'], 'reaction': ['T500']},
                'thorough': None}        # None = every T shape of the kind

# ---- boolean / optional options passed EXPLICITLY with a value that the other axes never pass (fourth round of
# seeded changes).  The axes above either omit an option or pass the value that switches it on (S_elements=True,
# use_references=False, verbose=True, include_ZPE=True, rev=True, act=True).  A caller that forwards a flag
# (`S_elements=formation_basis`) passes False, None or the default itself; a wrapper that tests `is not None`
# where its twin tests truthiness, or that looks for the name in its **kwargs, differs exactly there.  Axis
# 'xopt' = '<name>=<False|None|True>': every value of {False, None, True} that the option's own axis does not
# pass already; raise_error / raise_warning (named parameters of every species getter, no axis of their own) get
# all three.  Explored by sweep (e), never combined with the same option's own axis.
XOPT_VALUES = {'S_elements': ['False', 'None'], 'use_references': ['True', 'None'], 'verbose': ['False', 'None'],
               'include_ZPE': ['False', 'None'], 'raise_error': ['False', 'None', 'True'],
               'raise_warning': ['False', 'None', 'True'], 'rev': ['False', 'None'], 'act': ['False', 'None']}
XOPT_OWN_AXIS = {'S_elements': 'sel', 'use_references': 'uref', 'verbose': 'verb', 'include_ZPE': 'zpe',
                 'rev': 'rev', 'act': 'act'}
XOPT_PY = {'False': False, 'None': None, 'True': True}
XOPTS = {kind: ['%s=%s' % (n, v) for n, vs in XOPT_VALUES.items() for v in vs
                if kind == 'reaction' or n not in ('rev', 'act')] for kind in KINDS}
# sweep (e): every wrapper x T shape x unit x one explicit value.  quick: reaction forms with rev / act at their
# defaults, T 500 K (+ the 3-array for the empirical classes), the base unit and one unit of another family;
# thorough: forms x rev x act, every T shape of the kind, the base unit and every unit of the unit sweep.
XOPT_UNITS = {'quick': {'mode': [BASE_UNIT, 'eV/K'], 'species': [BASE_UNIT, 'J/g/K'],
                        'empirical': [BASE_UNIT, 'J/g/K'], 'reaction': [BASE_UNIT, 'eV/K']},
              'thorough': {k_: [BASE_UNIT] + v_ for k_, v_ in UNIT_SWEEP.items()}}
XOPT_T = UNIT_SWEEP_T

# ---- histories with two objects in one process (added after the seeded changes).  A case is
# (how, A, B, quantity, form, unit); the sequence is A, B, A again - each value against the object's OWN
# dimensionless twin and composition - then A.elements is edited in place and A is asked once more.
COMPOSED = [i for i in INSTANCES['species'] + INSTANCES['empirical'] if i not in ('sm_noel', 'nasa_noel')]
ROUTED = ROUTE_INSTANCES['species'] + ROUTE_INSTANCES['empirical']
PAIR_GROUPS = {'composition': COMPOSED, 'reaction': INSTANCES['reaction'], 'mode': INSTANCES['mode'], 'route': ROUTED}
PAIR_QUANTITIES = {'composition': QUANTITIES['empirical'], 'reaction': QUANTITIES['reaction'],
                   'mode': QUANTITIES['mode'], 'route': QUANTITIES['empirical']}
PAIR_FORMS = {'composition': ['plain'], 'mode': ['plain'], 'reaction': ['delta', 'act'], 'route': ['plain']}
PAIR_HOW = ['separate', 'deepcopy-edit', 'dict-edit']       # the last two for the composition and route groups only
PAIR_UNITS = {
    'quick': {'composition': ['kJ/mol/K', 'J/g/K', 'cal/kg/K', 'eV/K'], 'reaction': ['kJ/mol/K', 'eV/K'],
              'mode': ['kJ/mol/K', 'eV/K'], 'route': ['kJ/mol/K', 'J/g/K']},
    'thorough': {'composition': R_KEYS + PER_MASS_SHORT + ['cal/kg/K', 'L atm/lbs/K', 'kcal/amu/K'],
                 'reaction': R_KEYS, 'mode': R_KEYS,
                 'route': R_KEYS + PER_MASS_SHORT + ['cal/kg/K', 'L atm/lbs/K', 'kcal/amu/K']},
}


def _gen_pairs(tier):
    for group in ('composition', 'reaction', 'mode', 'route'):
        insts = PAIR_GROUPS[group]
        for how in PAIR_HOW:
            if how != 'separate' and group not in ('composition', 'route'):
                continue
            others = [(a, b) for a in insts for b in insts if a != b] if how == 'separate' \
                else [(a, a) for a in insts]
            for a, b in others:
                for q in PAIR_QUANTITIES[group]:
                    for form in PAIR_FORMS[group]:
                        for unit in PAIR_UNITS[tier][group]:
                            yield dict(hist=how, a=a, b=b, q=q, form=form, unit=unit)
N_SHARDS = 32

PLANNED_TAGS = ['kind:mode', 'kind:species', 'kind:empirical', 'kind:reaction',
                'unit:molar', 'unit:per-molecule', 'unit:per-mass',
                'quantity:entropy-like', 'quantity:energy-like',
                'T:scalar', 'T:default', 'T:array1', 'T:array3',
                'T:scalar-int', 'T:array-descending', 'T:array-unsorted-repeated', 'T:array-seam', 'T:array-int',
                'T:list', 'T:edited-in-place',
                'hist:separate', 'hist:deepcopy-edit', 'hist:dict-edit', 'hist:same-element-set',
                'hist:elements-edited-in-place',
                'form:plain', 'form:state', 'form:delta', 'form:act',
                'effective:P', 'effective:x', 'effective:S_elements', 'effective:use_references',
                'effective:verbose', 'effective:include_ZPE', 'effective:kwblock', 'effective:rev',
                'effective:act', 'effective:del_m', 'effective:del_m=None',
                'refused:per-mass-without-composition', 'agree:both-forms-raise', 'effective:use_references=None'] + \
               ['route:' + r_ for r_ in sorted(set(ROUTE_OF.values()))] + \
               ['route:second-source-has-another-composition', 'route:effective:S_elements',
                'hist:route-pair'] + \
               ['explicit:' + x_ for x_ in XOPTS['reaction']] + \
               ['unit:the-stored-unit-of-the-object(%s)' % u_ for u_ in sorted(set(STORED_UNIT.values()))] + \
               ['stored-unit:%s+effective:%s' % (w_, o_) for w_ in ('asked', 'another-asked')
                for o_ in ('P', 'x', 'S_elements', 'kwblock')]


def bounds(tier):
    return dict(deviation_level=DEVIATIONS[tier], bases={k: _base(k) for k in KINDS},
                instances=INSTANCES, quantities=QUANTITIES,
                units=dict(table=R_KEYS, per_mass_species_and_empirical=len(PER_MASS),
                           per_mass_modes_and_reactions=PER_MASS_SHORT, mass_units=MASS_UNITS),
                T=dict(T_VALUES, Tdef='argument omitted',
                       note='int3 is an integer-dtype ndarray, list3 a python list, the other arrays float ndarrays'),
                P=[None, 0.1, 30.0, 2], x=[None, 0.3, 0.0], S_elements=[False, True], use_references=[True, False],
                verbose=[False, True], include_ZPE=[False, True], kwblock=[False, True],
                reaction_forms=FORMS, rev=[False, True], act=[False, True],
                del_m=['omitted', 2, 0, 'None passed explicitly'],
                per_case_history=['the same call repeated after the first result was overwritten in place',
                                  'arguments compared with a deep copy taken before the calls',
                                  'array T reversed and edited in place, then the call repeated'],
                pairs=dict(groups={g: v for g, v in PAIR_GROUPS.items()}, units=PAIR_UNITS[tier],
                           how=PAIR_HOW, sequence='A, B, A again (each against its own twin), then A.elements '
                                                  'edited in place and A once more'),
                full_product='instance x quantity x unit (x form x rev x act) with default options',
                option_sweep='instance x quantity (x form x rev x act) x T shape x one option away from the defaults, base unit',
                unit_sweep=dict(what='instance x quantity (x form x rev x act) x T shape x (no option | one option away '
                                     'from the defaults) x unit', units=UNIT_SWEEP, stored_unit_of_instance=STORED_UNIT,
                                T_shapes=UNIT_SWEEP_T[tier] or 'every T shape of the kind'),
                explicit_value_sweep=dict(what='instance x quantity x form (thorough: x rev x act) x T shape x unit x one '
                                               'option passed explicitly with a value of {False, None, True} that its '
                                               'own axis never passes', values=XOPT_VALUES, units=XOPT_UNITS[tier],
                                          T_shapes=XOPT_T[tier] or 'every T shape of the kind'),
                composition_routes=dict(instances=ROUTE_INSTANCES, route=ROUTE_OF, units=ROUTE_UNITS[tier],
                                        option_units=ROUTE_OPT_UNITS,
                                        T_shapes=['T500'] if tier == 'quick' else 'every T shape of the kind',
                                        what='instance x quantity x unit, and x one option away from the defaults '
                                             'in option_units; two-object histories of group route'),
                shards=N_SHARDS)


# --------------------------------------------------------------- enumeration
def _applicable(kind, c):
    form = c['form']
    xopt = c.get('xopt')
    if xopt:
        name = xopt.split('=')[0]
        own = XOPT_OWN_AXIS.get(name)
        if own and c[own] != _base(kind)[own]:
            return False            # the option's own axis passes it already: one value per name
        if name in ('rev', 'act') and (kind != 'reaction' or form.startswith('state:')
                                       or (name == 'act' and form == 'act')):
            return False
    if kind != 'reaction':
        return True
    if form.startswith('state:') and (c['rev'] or c['act']):
        return False
    if form == 'act' and c['act']:
        return False
    return True


def _ndev(c, base):
    return sum(1 for a in AXES if c[a] != base[a])


def _gen(tier):
    """Deterministic stream of (kind, case dict).  Cases are unique."""
    k = DEVIATIONS[tier]
    for kind in KINDS:
        base = _base(kind)
        alts = _alts(kind)
        axes = [a for a in AXES if alts.get(a)]
        for r in range(0, k + 1):
            for subset in itertools.combinations(axes, r):
                for vals in itertools.product(*[alts[a] for a in subset]):
                    c = dict(base)
                    c.update(zip(subset, vals))
                    if _applicable(kind, c):
                        yield kind, c
        # full product with default options, beyond the deviation level
        if kind == 'reaction':
            fra = [(f, rv, ac) for f in FORMS for rv in (False, True) for ac in (False, True)]
        else:
            fra = [('plain', False, False)]
        for inst in INSTANCES[kind]:
            for q in QUANTITIES[kind]:
                for unit in UNITS[kind]:
                    for f, rv, ac in fra:
                        c = dict(base)
                        c.update(inst=inst, q=q, unit=unit, form=f, rev=rv, act=ac)
                        if _ndev(c, base) <= k or not _applicable(kind, c):
                            continue
                        yield kind, c
        # option sweep: every wrapper (instance x quantity x form x rev x act) x T shape x one option
        # away from its defaults, at the base unit - beyond the deviation level
        single = [None] + [(a, v) for a in SWEEP_AXES for v in alts.get(a, [])]
        for inst in INSTANCES[kind]:
            for q in QUANTITIES[kind]:
                for f, rv, ac in fra:
                    for T in [base['T']] + alts['T']:
                        for opt in single:
                            if opt is None and T == base['T']:
                                continue            # that case belongs to the full product above
                            c = dict(base)
                            c.update(inst=inst, q=q, form=f, rev=rv, act=ac, T=T)
                            if opt is not None:
                                c[opt[0]] = opt[1]
                            if _ndev(c, base) <= k or not _applicable(kind, c):
                                continue
                            yield kind, c
        # unit sweep (d): every wrapper x T shape x (no option | one option away from its defaults) x every
        # unit string stored by some instance of the alphabet (+ one per-mass form) - beyond the deviation
        # level; the base unit is sweep (c), no option at the base T is the full product
        T_shapes = UNIT_SWEEP_T[tier][kind] if UNIT_SWEEP_T[tier] else [base['T']] + alts['T']
        for inst in INSTANCES[kind]:
            for q in QUANTITIES[kind]:
                for f, rv, ac in fra:
                    for unit in UNIT_SWEEP[kind]:
                        for T in T_shapes:
                            for opt in single:
                                if opt is None and T == base['T']:
                                    continue
                                c = dict(base)
                                c.update(inst=inst, q=q, form=f, rev=rv, act=ac, T=T, unit=unit)
                                if opt is not None:
                                    c[opt[0]] = opt[1]
                                if _ndev(c, base) <= k or not _applicable(kind, c):
                                    continue
                                yield kind, c
        # explicit-value sweep (e): every wrapper x T shape x unit x one boolean / optional option passed
        # explicitly as False / None / its default (XOPT_VALUES); 'xopt' is no axis of the deviation set, so
        # nothing here was generated above
        fra_e = fra if tier == 'thorough' else [(f, False, False) for f in (FORMS if kind == 'reaction' else ['plain'])]
        T_shapes = XOPT_T[tier][kind] if XOPT_T[tier] else [base['T']] + alts['T']
        for inst in INSTANCES[kind]:
            for q in QUANTITIES[kind]:
                for f, rv, ac in fra_e:
                    for unit in XOPT_UNITS[tier][kind]:
                        for T in T_shapes:
                            for xopt in XOPTS[kind]:
                                c = dict(base)
                                c.update(inst=inst, q=q, form=f, rev=rv, act=ac, T=T, unit=unit, xopt=xopt)
                                if _applicable(kind, c):
                                    yield kind, c
    # sweep (f): the instances whose composition arrives through more than one route (ROUTE_INSTANCES):
    # instance x quantity x unit with default options, and instance x quantity x unit of the unit sweep x one
    # option away from its defaults; thorough: the same for every T shape of the kind and every unit
    for kind in ('species', 'empirical'):
        base = _base(kind)
        alts = _alts(kind)
        single = [(a, v) for a in SWEEP_AXES for v in alts.get(a, [])]
        T_shapes = [base['T']] if tier == 'quick' else [base['T']] + alts['T']
        for inst in ROUTE_INSTANCES[kind]:
            for q in QUANTITIES[kind]:
                for T in T_shapes:
                    for unit in ROUTE_UNITS[tier]:
                        c = dict(base)
                        c.update(inst=inst, q=q, unit=unit, T=T)
                        yield kind, c
                    for unit in ROUTE_OPT_UNITS:
                        for a, v in single:
                            c = dict(base)
                            c.update(inst=inst, q=q, unit=unit, T=T)
                            c[a] = v
                            yield kind, c
    for c in _gen_pairs(tier):
        yield 'pair', c


def shards(tier):
    return [dict(tier=tier, i=i, n=N_SHARDS) for i in range(N_SHARDS)]


# ------------------------------------------------------------------ instances
H2O_WN = [3825.434, 3710.264, 1582.432]
H2O_A_LOW = [4.04618796E+00, -6.87238823E-04, 2.79722240E-06, -1.42318006E-09, 2.34551159E-13,
             -3.02826236E+04, -2.50036531E-01]
H2O_A_HIGH = [2.41854323E+00, 3.35448922E-03, -9.66398101E-07, 1.34441829E-10, -7.18940063E-15,
              -2.97582484E+04, 8.37839787E+00]
SHOMATE_A = [30.09200, 6.832514, 6.793435, -2.534480, 0.082139, -250.8810, 223.3967, -241.8264]
CO2_A9 = [[4.943650540E+04, -6.264116010E+02, 5.301725240E+00, 2.503813816E-03, -2.127308728E-07,
           -7.689988780E-10, 2.849677801E-13, -4.528198460E+04, -7.048279440E+00],
          [1.176962419E+05, -1.788791477E+03, 8.291523190E+00, -9.223156780E-05, 4.863676880E-09,
           -1.891053312E-12, 6.330036590E-16, -3.908350590E+04, -2.652669281E+01]]


def _gas(name, elements, mw, wn, pe, rot_T, sym, geometry, spin=0., **kw):
    from pmutt.statmech import StatMech, trans, vib, rot, elec
    return StatMech(name=name, elements=elements,
                    trans_model=trans.FreeTrans(n_degrees=3, molecular_weight=mw),
                    vib_model=vib.HarmonicVib(vib_wavenumbers=list(wn)),
                    rot_model=rot.RigidRotor(symmetrynumber=sym, rot_temperatures=list(rot_T),
                                             geometry=geometry),
                    elec_model=elec.GroundStateElec(potentialenergy=pe, spin=spin), **kw)


def _ads(name, elements, wn, pe, **kw):
    from pmutt.statmech import StatMech, vib, elec
    return StatMech(name=name, elements=elements, vib_model=vib.HarmonicVib(vib_wavenumbers=list(wn)),
                    elec_model=elec.GroundStateElec(potentialenergy=pe, spin=0.), **kw)


def _cov(name_i, name_j):
    from pmutt.mixture.cov import PiecewiseCovEffect
    return PiecewiseCovEffect(name_i=name_i, name_j=name_j, intervals=[0., 0.25, 0.6],
                              slopes=[-12., 20., 4.5])


def _nasa(name, phase, elements, shift=0., **kw):
    from pmutt.empirical.nasa import Nasa
    a_low, a_high = list(H2O_A_LOW), list(H2O_A_HIGH)
    a_low[5] += shift
    a_high[5] += shift
    return Nasa(name=name, phase=phase, elements=elements, a_low=a_low, a_high=a_high, T_low=100.,
                T_mid=1610.97, T_high=5000., **kw)


def _shomate(name, phase, elements, a=None, **kw):
    from pmutt.empirical.shomate import Shomate
    return Shomate(name=name, phase=phase, elements=elements, a=np.array(SHOMATE_A) if a is None else a,
                   T_low=250., T_high=2000., **kw)


def _h2():
    return _gas('H2', {'H': 2}, 2.016, [4306.1793], -6.7598, [87.6], 2, 'linear')


def _o2():
    return _gas('O2', {'O': 2}, 31.998, [2205.], -9.86, [2.08], 2, 'linear', spin=1.)


def _h2o(**kw):
    return _gas('H2O', {'H': 2, 'O': 1}, 18.015, H2O_WN, -14.2209, [40.1, 20.9, 13.4], 2, 'nonlinear', **kw)


def _h2o_ts():
    return _gas('H2O_TS', {'H': 2, 'O': 1}, 18.015, [3000., 1200.], -13.1, [38., 22., 14.], 1, 'nonlinear')


_ATOMS = {}


def _atoms(key):
    """A fresh copy of an ASE Atoms object: a water molecule, or CO on top of a 2x2x3 Pt(111) slab."""
    if key not in _ATOMS:
        from ase.build import fcc111, add_adsorbate, molecule
        if key == 'H2O':
            _ATOMS[key] = molecule('H2O')
        else:
            slab = fcc111('Pt', size=(2, 2, 3), vacuum=8.)
            add_adsorbate(slab, molecule('CO'), height=1.9, position='ontop')
            _ATOMS[key] = slab
    return _ATOMS[key].copy()


def _count(atoms):
    """Composition of an Atoms object counted from its chemical symbols (no formula string, no pMuTT parser)."""
    out = {}
    for sym in atoms.get_chemical_symbols():
        out[sym] = out.get(sym, 0) + 1
    return out


def build(name):
    """Return (object, meta) for an instance name; always a fresh object.
    meta: elements (dict|None) and the per-species keyword block used by the 'kw' axis."""
    from pmutt.statmech import (StatMech, trans, vib, rot, elec, nucl, EmptyMode, ConstantMode, presets)
    from pmutt.statmech.lsr import LSR
    from pmutt.empirical import GasPressureAdj
    from pmutt.empirical.references import References
    from pmutt.empirical.nasa import Nasa9, SingleNasa9
    from pmutt.reaction import Reaction, ChemkinReaction
    from pmutt.reaction.bep import BEP
    m = dict(elements=None, kwblock={'H2O_kwargs': {'P': 5.}})
    # ---- modes
    if name == 'HarmonicVib':
        return vib.HarmonicVib(vib_wavenumbers=list(H2O_WN)), m
    if name == 'FreeTrans':
        return trans.FreeTrans(n_degrees=3, molecular_weight=18.015), m
    if name == 'QRRHOVib':
        return vib.QRRHOVib(vib_wavenumbers=[60., 310., 1582.432], Bav=1.e-44, v0=100., alpha=4), m
    if name == 'EinsteinVib':
        return vib.EinsteinVib(einstein_temperature=250., interaction_energy=-0.1), m
    if name == 'DebyeVib':
        return vib.DebyeVib(debye_temperature=215., interaction_energy=-0.2), m
    if name == 'RigidRotor':
        return rot.RigidRotor(symmetrynumber=2, rot_temperatures=[40.1, 20.9, 13.4], geometry='nonlinear'), m
    if name == 'GroundStateElec':
        return elec.GroundStateElec(potentialenergy=-14.2209, spin=0.5), m
    if name == 'EmptyNucl':
        return nucl.EmptyNucl(), m
    if name == 'EmptyMode':
        return EmptyMode(), m
    if name == 'ConstantMode':
        return ConstantMode(q=2., Cv=1.1e-4, Cp=2.3e-4, U=-1., H=-0.9, S=3.1e-4, F=-1.1, G=-1.2), m
    if name == 'LSR':
        return LSR(slope=0.4, intercept=1.5, reaction=-50., surf_species=-10., gas_species=2.), m
    if name == 'PiecewiseCovEffect':
        m['kwblock'] = {'B(S)_kwargs': {'x': 0.7}}
        return _cov('A(S)', 'B(S)'), m
    if name == 'GasPressureAdj':
        return GasPressureAdj(), m
    # ---- statistical-mechanical species
    if name == 'sm_gas':
        m['elements'] = {'H': 2, 'O': 1}
        return _h2o(), m
    if name == 'sm_ads':
        m['elements'] = {'C': 1, 'O': 1}
        m['kwblock'] = {'CO(S)_kwargs': {'P': 5.}}
        return _ads('CO(S)', {'C': 1, 'O': 1}, [2050., 420., 380., 350., 60., 55.], -16.3), m
    if name == 'sm_ref':
        m['elements'] = {'H': 2, 'O': 1}
        refs = References(offset={'H': -123.10868373, 'O': -186.72503046}, descriptor='elements')
        return _h2o(references=refs), m
    if name == 'sm_cov':
        m['elements'] = {'C': 1, 'O': 1}
        m['kwblock'] = {'O(S)_kwargs': {'x': 0.7}}
        return _ads('CO(S)', {'C': 1, 'O': 1}, [2050., 420., 380., 350., 60., 55.], -16.3,
                    misc_models=[_cov('CO(S)', 'O(S)')]), m
    if name == 'sm_noel':
        return _gas('H2O', None, 18.015, H2O_WN, -14.2209, [40.1, 20.9, 13.4], 2, 'nonlinear'), m
    if name == 'sm_const':
        m['elements'] = {'N': 1, 'H': 3}
        m['kwblock'] = {'NH3_kwargs': {'P': 5.}}
        return StatMech(name='NH3', elements={'N': 1, 'H': 3}, q=1.5, Cv=1.1e-4, Cp=2.3e-4, U=-1., H=-0.9,
                        S=3.1e-4, F=-1.1, G=-1.2, **presets['constant']), m
    if name == 'sm_int':
        # every numeric parameter an integer (python int / integer lists)
        m['elements'] = {'H': 2, 'O': 2}
        m['kwblock'] = {'H2O2_kwargs': {'P': 5}}
        return _gas('H2O2', {'H': 2, 'O': 2}, 34, [3600, 1400, 880], -18, [14, 1, 1], 2, 'nonlinear', spin=0), m
    # ---- empirical
    if name == 'nasa_plain':
        # a species WITHOUT attached models (misc_models is None) that has a composition
        m['elements'] = {'H': 2, 'O': 1}
        return _nasa('H2O', 'S', {'H': 2, 'O': 1}), m
    if name == 'nasa9_plain':
        m['elements'] = {'C': 1, 'O': 2}
        m['kwblock'] = {'CO2_kwargs': {'P': 5.}}
        nasas = [SingleNasa9(T_low=200., T_high=1000., a=np.array(CO2_A9[0])),
                 SingleNasa9(T_low=1000., T_high=6000., a=np.array(CO2_A9[1]))]
        return Nasa9(name='CO2', elements={'C': 1, 'O': 2}, phase='s', nasas=nasas), m
    if name == 'shomate_plain':
        m['elements'] = {'H': 2, 'O': 1}
        return _shomate('H2O', 'S', {'H': 2, 'O': 1}), m
    if name == 'shomate_int':
        # integer-dtype coefficient array and integer temperature bounds
        from pmutt.empirical.shomate import Shomate
        m['elements'] = {'H': 2, 'O': 2}
        m['kwblock'] = {'H2O2_kwargs': {'P': 5}}
        return Shomate(name='H2O2', phase='G', elements={'H': 2, 'O': 2},
                       a=np.array([30, 7, 7, -3, 1, -251, 223, -242]), T_low=250, T_high=2000), m
    if name in ('shomate_kJ', 'shomate_cal_surf', 'shomate_eV'):
        # the same polynomial expressed (and stored) in another unit: every coefficient scales with R
        from pmutt import constants as c
        unit = STORED_UNIT[name]
        a = np.array(SHOMATE_A) * (c.R(unit) / c.R('J/mol/K'))
        if name == 'shomate_cal_surf':
            m['elements'] = {'C': 1, 'O': 1}
            m['kwblock'] = {'O(S)_kwargs': {'x': 0.7}}
            return _shomate('CO(S)', 'S', {'C': 1, 'O': 1}, a=a, units=unit,
                            misc_models=[_cov('CO(S)', 'O(S)')]), m
        m['elements'] = {'H': 2, 'O': 1}
        return _shomate('H2O', 'G', {'H': 2, 'O': 1}, a=a, units=unit), m
    if name == 'nasa_gas':
        m['elements'] = {'H': 2, 'O': 1}
        return _nasa('H2O', 'G', {'H': 2, 'O': 1}), m
    if name == 'nasa_surf':
        m['elements'] = {'C': 1, 'O': 1}
        m['kwblock'] = {'O(S)_kwargs': {'x': 0.7}}
        return _nasa('CO(S)', 'S', {'C': 1, 'O': 1}, misc_models=[_cov('CO(S)', 'O(S)')]), m
    if name == 'nasa_noel':
        return _nasa('H2O', None, None), m
    if name == 'nasa9_gas':
        m['elements'] = {'C': 1, 'O': 2}
        m['kwblock'] = {'CO2_kwargs': {'P': 5.}}
        nasas = [SingleNasa9(T_low=200., T_high=1000., a=np.array(CO2_A9[0])),
                 SingleNasa9(T_low=1000., T_high=6000., a=np.array(CO2_A9[1]))]
        return Nasa9(name='CO2', elements={'C': 1, 'O': 2}, phase='g', nasas=nasas), m
    if name == 'shomate_gas':
        m['elements'] = {'H': 2, 'O': 1}
        return _shomate('H2O', 'G', {'H': 2, 'O': 1}), m
    if name == 'shomate_surf':
        m['elements'] = {'C': 1, 'O': 1}
        m['kwblock'] = {'O(S)_kwargs': {'x': 0.7}}
        return _shomate('CO(S)', 'S', {'C': 1, 'O': 1}, misc_models=[_cov('CO(S)', 'O(S)')]), m
    # ---- composition through more than one route (ROUTE_INSTANCES)
    if name in ROUTE_OF:
        from pmutt.empirical.nasa import Nasa
        from pmutt.empirical.shomate import Shomate
        m['route'] = ROUTE_OF[name]
        co_wn = [2050., 420., 380., 350., 60., 55.]
        ads = dict(vib_wavenumbers=list(co_wn), potentialenergy=-16.3, spin=0.)
        gas = dict(symmetrynumber=2, vib_wavenumbers=list(H2O_WN), potentialenergy=-14.2209, spin=0.)
        if name in ('sm_atoms_slab', 'sm_atoms_part'):
            # an adsorbate: the Atoms object is the calculation cell (12 Pt + C + O), `elements` the species
            m['elements'] = {'C': 1, 'O': 1} if name == 'sm_atoms_slab' else {'C': 1, 'O': 1, 'Pt': 1}
            m['kwblock'] = {'CO(S)_kwargs': {'P': 5.}}
            m['second_source'] = _count(_atoms('CO/Pt12'))
            return StatMech(name='CO(S)', atoms=_atoms('CO/Pt12'), elements=dict(m['elements']), **ads,
                            **presets['harmonic']), m
        if name == 'sm_atoms_same':
            m['elements'] = {'H': 2, 'O': 1}
            m['second_source'] = _count(_atoms('H2O'))
            return StatMech(name='H2O', atoms=_atoms('H2O'), elements={'H': 2, 'O': 1}, **gas,
                            **presets['idealgas']), m
        if name == 'sm_atoms_only':
            at = _atoms('H2O')
            m['elements'] = _count(at)          # counted here from the symbols of the Atoms object handed over
            return StatMech(name='H2O', atoms=at, **gas, **presets['idealgas']), m
        if name == 'nasa_fm_explicit':
            # the model states the formula unit H2O, the caller asks for the dimer H4O2
            m['elements'] = {'H': 4, 'O': 2}
            m['second_source'] = {'H': 2, 'O': 1}
            return Nasa.from_model(model=_h2o(), T_low=250., T_high=2000., phase='G',
                                   elements={'H': 4, 'O': 2}), m
        if name == 'nasa_fm_inherit':
            # composition inherited twice: model.elements, itself stated next to the cell of the calculation
            m['elements'] = {'C': 1, 'O': 1}
            m['kwblock'] = {'CO(S)_kwargs': {'P': 5.}}
            m['second_source'] = _count(_atoms('CO/Pt12'))
            model = StatMech(name='CO(S)', atoms=_atoms('CO/Pt12'), elements={'C': 1, 'O': 1}, **ads,
                             **presets['harmonic'])
            return Nasa.from_model(model=model, T_low=250., T_high=2000., phase='S'), m
        if name == 'shomate_fm_inherit':
            at = _atoms('H2O')
            m['elements'] = _count(at)
            model = StatMech(name='H2O', atoms=at, **gas, **presets['idealgas'])
            return Shomate.from_model(model=model, T_low=250., T_high=2000., phase='G'), m
        if name in ('nasa_fm_class', 'shomate_fm_class', 'nasa9_fm_class'):
            # the documented short form: the preset supplies the model CLASS, from_model builds the model from
            # the keyword arguments (atoms, elements, ...) and keeps `elements` for the empirical object
            cls = {'nasa_fm_class': Nasa, 'shomate_fm_class': Shomate, 'nasa9_fm_class': Nasa9}[name]
            m['elements'] = {'C': 1, 'O': 1}
            m['kwblock'] = {'CO(S)_kwargs': {'P': 5.}}
            m['second_source'] = _count(_atoms('CO/Pt12'))
            extra = dict(T_mid=[1000.], fit_T_mid=False) if cls is Nasa9 else {}     # no search for the seam
            return cls.from_model(name='CO(S)', T_low=250., T_high=2000., phase='S', elements={'C': 1, 'O': 1},
                                  atoms=_atoms('CO/Pt12'), **ads, **extra, **presets['harmonic']), m
        raise KeyError(name)
    # ---- reactions
    if name in ('rxn_sm_ts', 'rxn_sm'):
        ts = [_h2o_ts()] if name == 'rxn_sm_ts' else None
        return Reaction(reactants=[_h2(), _o2()], reactants_stoich=[1., 0.5], products=[_h2o()],
                        products_stoich=[1.], transition_state=ts,
                        transition_state_stoich=[1.] if ts else None), m
    if name == 'rxn_int_ts':
        # integer stoichiometric coefficients: 2 H2 + O2 = 2 H2O through two transition-state species
        return Reaction(reactants=[_h2(), _o2()], reactants_stoich=[2, 1], products=[_h2o()],
                        products_stoich=[2], transition_state=[_h2o_ts()], transition_state_stoich=[2]), m
    if name == 'rxn_nasa':
        return Reaction(reactants=[_nasa('H2', 'G', {'H': 2}, shift=30000.),
                                   _nasa('O2', 'G', {'O': 2}, shift=29000.)],
                        reactants_stoich=[1., 0.5], products=[_nasa('H2O', 'G', {'H': 2, 'O': 1})],
                        products_stoich=[1.]), m
    if name == 'rxn_mixed':
        return Reaction(reactants=[_h2(), _shomate('O2', 'G', {'O': 2})], reactants_stoich=[1., 0.5],
                        products=[_nasa('H2O', 'G', {'H': 2, 'O': 1})], products_stoich=[1.],
                        transition_state=[_h2o_ts()], transition_state_stoich=[1.]), m
    if name == 'rxn_bep':
        bep = BEP(slope=0.3, intercept=22., name='H2O_TS', descriptor='delta_H')
        return Reaction(reactants=[_h2(), _o2()], reactants_stoich=[1., 0.5], products=[_h2o()],
                        products_stoich=[1.], transition_state=[bep], transition_state_stoich=[1.]), m
    if name in ('chemkin_ts', 'chemkin', 'surf_ts', 'surf', 'chemkin_ts_low', 'surf_ts_low'):
        from pmutt.omkm.reaction import SurfaceReaction
        m['kwblock'] = {'O(S)_kwargs': {'x': 0.7}}
        co = _nasa('CO', 'G', {'C': 1, 'O': 1}, shift=15000.)
        site = _nasa('O(S)', 'S', {'O': 1}, shift=20000.)
        prod = _nasa('CO2(S)', 'S', {'C': 1, 'O': 2}, shift=-4000., misc_models=[_cov('CO2(S)', 'O(S)')])
        ts = [_nasa('TS(S)', 'S', {'C': 1, 'O': 2}, shift=36500.)] if name.endswith('_ts') else None
        if name.endswith('_ts_low'):
            # transition state BELOW the reactants of an exothermic step: both the barrier through the
            # TS and the reaction change are negative forwards, so the clamped getters must answer 0
            ts = [_nasa('TS(S)', 'S', {'C': 1, 'O': 2}, shift=-16000.)]
            prod = _nasa('CO2(S)', 'S', {'C': 1, 'O': 2}, shift=-30000., misc_models=[_cov('CO2(S)', 'O(S)')])
        kw = dict(reactants=[co, site], reactants_stoich=[1., 1.], products=[prod], products_stoich=[1.],
                  transition_state=ts, transition_state_stoich=[1.] if ts else None)
        if name.startswith('chemkin'):
            return ChemkinReaction(**kw), m
        return SurfaceReaction(**kw), m
    raise KeyError(name)


# ------------------------------------------------------------------ reference
class NoComposition(Exception):
    pass


def unit_family(unit):
    parts = unit.split('/')
    if any(p in MASS_UNITS for p in parts):
        return 'per-mass'
    if 'mol' in parts:
        return 'molar'
    return 'per-molecule'


def ref_R(unit, elements):
    """Gas constant in `unit` (entropy form), for per-mass units divided by the molar mass.
    Built from pmutt.constants only; independent of pmutt._get_R_adj."""
    from pmutt import constants as c
    parts = unit.split('/')
    mass = [p for p in parts if p in MASS_UNITS]
    if not mass:
        return c.R(unit)
    if not elements:
        raise NoComposition(unit)
    molar_mass = sum(c.atomic_weight[el] * n for el, n in sorted(elements.items()))     # g/mol
    molar_unit = '/'.join('mol' if p in MASS_UNITS else p for p in parts)
    mass_of_one_mol = molar_mass * c.convert_unit(num=1., initial='g', final=mass[0])   # <mass unit>/mol
    return c.R(molar_unit) / mass_of_one_mol


_SIG_CACHE = {}


def _params(fn):
    f = getattr(fn, '__func__', fn)
    r = _SIG_CACHE.get(f)
    if r is None:
        names, varkw, required = set(), False, set()
        for p in inspect.signature(fn).parameters.values():
            if p.kind == p.VAR_KEYWORD:
                varkw = True
            elif p.kind in (p.POSITIONAL_OR_KEYWORD, p.KEYWORD_ONLY):
                names.add(p.name)
                if p.default is p.empty:
                    required.add(p.name)
        r = _SIG_CACHE[f] = (names, varkw, required)
    return r


class MissingArgument(TypeError):
    """The dimensionless getter cannot be called under these conditions (a required argument,
    e.g. T, is not among them) - the same TypeError python raises at the call."""


def call_twin(fn, kw):
    """Call the dimensionless getter with the conditions/options it accepts (a getter without
    **kwargs receives only the arguments it names - the library's own convention)."""
    names, varkw, required = _params(fn)
    missing = sorted(required - set(kw))
    if missing:
        raise MissingArgument('%s needs %s' % (getattr(fn, '__name__', fn), missing))
    if varkw:
        return fn(**kw)
    return fn(**{k: v for k, v in kw.items() if k in names})


def getter_names(kind, q, form):
    suf = 'oR' if q in ENTROPY_LIKE else 'oRT'
    if kind != 'reaction':
        return 'get_%s' % q, 'get_%s%s' % (q, suf)
    if form.startswith('state:'):
        return 'get_%s_state' % q, 'get_%s%s_state' % (q, suf)
    if form == 'delta':
        return 'get_delta_%s' % q, 'get_delta_%s%s' % (q, suf)
    return 'get_%s_act' % q, 'get_%s%s_act' % (q, suf)


def options(c, meta, base=False):
    """Keyword options of a case (base=True: every option axis at its default)."""
    o = {}
    form = c['form']
    if form.startswith('state:'):
        o['state'] = {'reactants': 'reactants', 'products': 'products', 'ts': 'transition state'}[form[6:]]
    if base:
        return o
    if c['P'] is not None:
        o['P'] = c['P']
    if c['x'] is not None:
        o['x'] = c['x']
    if c['sel']:
        o['S_elements'] = True
    if not c['uref']:
        o['use_references'] = False
    if c['verb']:
        o['verbose'] = True
    if c['zpe']:
        o['include_ZPE'] = True
    if c['kw']:
        o.update({k: dict(v) for k, v in meta['kwblock'].items()})
    if c['rev']:
        o['rev'] = True
    if c['act']:
        o['act'] = True
    if c.get('delm') is not None:
        o['del_m'] = None if c['delm'] == 'None' else c['delm']
    if c.get('xopt'):
        name, val = c['xopt'].split('=')
        if name in o:
            raise RuntimeError('explicit option %s collides with its own axis' % name)
        o[name] = XOPT_PY[val]
    return o


def deviating_options(c):
    b = _base('species')
    return [c[a] if a == 'xopt' else OPTION_NAME[a] + ('=None' if a == 'delm' and c[a] == 'None' else '')
            for a in OPTION_AXES if c.get(a) != b[a]]


def signature(c):
    kind = kind_of(c['inst'])
    sig = dict(cls=CLASS_OF.get(c['inst'], c['inst']), inst=c['inst'],
               getter=getter_names(kind, c['q'], c['form'])[0], unit=unit_family(c['unit']),
               opts='+'.join(deviating_options(c)) or 'none',
               T=T_SIG.get(c['T'], 'scalar'))
    if c['inst'] in ROUTE_OF:
        sig['route'] = ROUTE_OF[c['inst']]    # how the composition reached the object
    if STORED_UNIT.get(c['inst']) == c['unit']:
        sig['stored_unit'] = 'asked'          # the request names exactly the unit string the object stores
    return sig


def _differs(a, b):
    try:
        a_, b_ = np.asarray(a, dtype=float), np.asarray(b, dtype=float)
    except (TypeError, ValueError):
        return True
    if a_.shape != b_.shape:
        return True
    return bool(np.any(np.abs(a_ - b_) > 1e-12 * (np.abs(a_) + np.abs(b_) + 1e-300)))


def _in_pmutt(e):
    from pmc.engine import core
    return core.raised_in_pmutt(e)


# ----------------------------------------------------------------- evaluation
def kind_of(inst):
    for k, v in INSTANCES.items():
        if inst in v or inst in ROUTE_INSTANCES.get(k, ()):
            return k
    raise KeyError(inst)


def evaluate(c, ctx):
    kind = kind_of(c['inst'])
    obj, meta = build(c['inst'])
    q, form, unit = c['q'], c['form'], c['unit']
    energy = q in ENERGY_LIKE
    dim_name, nd_name = getter_names(kind, q, form)
    dim, twin = getattr(obj, dim_name), getattr(obj, nd_name)     # AttributeError here = harness/API drift
    u = unit[:-2] if energy else unit
    base_u = BASE_UNIT[:-2] if energy else BASE_UNIT
    fam = unit_family(unit)
    sig = signature(c)
    if getattr(obj, 'units', None) != (STORED_UNIT.get(c['inst']) if kind != 'reaction' else None):
        raise RuntimeError('STORED_UNIT table out of date for %s: the object stores %r'
                           % (c['inst'], getattr(obj, 'units', None)))
    own_unit = STORED_UNIT.get(c['inst']) == unit

    # temperature: conditions for both forms
    names, varkw, required = _params(dim)
    if c['T'] == 'Tdef':
        if 'T' in required:
            ctx.tag('inapplicable:T-is-required')
            return
        dim_T = {}
        if 'T' in names:            # documented default 298.15 K
            twin_T, T_mult = {'T': T_DEFAULT}, T_DEFAULT
        else:                       # entropy-like getter without a T parameter: nothing is passed
            twin_T, T_mult = {}, None
        ctx.tag('T:default')
    else:
        T = make_T(c['T'])
        ctx.tag(T_TAG.get(c['T'], 'T:scalar'))
        # both forms receive the SAME object (one caller, one array); the multiplier is a private copy
        dim_T, twin_T = {'T': T}, {'T': T}
        T_mult = np.array(T, dtype=float) if isinstance(T, (list, np.ndarray)) else T
    if energy and T_mult is None:
        raise RuntimeError('energy getter without a T parameter: %s' % dim_name)
    if c['T'] == 'list3' and getattr(dim, '__func__', dim).__qualname__.startswith('_ModelBase.'):
        # the generic getters inherited from _ModelBase document `T : float`; a python list is only taken
        # to the getters the empirical classes define themselves (documented `float or (N,) ndarray`, and
        # their twins convert any iterable)
        ctx.tag('inapplicable:list-T-for-a-float-T-getter')
        return

    opts = options(c, meta)
    args_before = copy.deepcopy((dim_T, opts))
    ctx.state(('case',) + tuple(str(c[a]) for a in AXES))
    ctx.trace()
    ctx.trans(_ndev(c, _base(kind)))
    ctx.tag('kind:' + kind)
    ctx.tag('unit:' + fam)
    if own_unit:
        ctx.tag('unit:the-stored-unit-of-the-object(%s)' % unit)
    ctx.tag('quantity:' + ('energy-like' if energy else 'entropy-like'))
    ctx.tag('form:' + form.split(':')[0])
    if c.get('xopt'):
        ctx.tag('explicit:' + c['xopt'])
    if meta.get('route'):
        ctx.tag('route:' + meta['route'])
        if meta.get('second_source') and meta['second_source'] != meta['elements']:
            ctx.tag('route:second-source-has-another-composition')

    # ---- per-mass unit on an object without composition: must be refused
    elements = meta['elements'] if kind in ('species', 'empirical') else None
    if fam == 'per-mass' and not elements:
        try:
            val = dim(units=u, **dim_T, **opts)
        except Exception as e:
            if not _in_pmutt(e):
                raise
            ctx.evals()
            ctx.tag('refused:per-mass-without-composition')
            ctx.refuse('per-mass unit without a composition')
            ctx.true('a per-mass value needs a composition', True, sig, c)
            return
        ctx.evals()
        ctx.true('a per-mass value needs a composition', False, sig, c, val, 'an exception (no molar mass)')
        return

    # ---- dimensionless twin under the same conditions and options
    tkw = dict(twin_T)
    tkw.update(opts)
    try:
        nd = call_twin(twin, tkw)
        ctx.evals()
    except Exception as e_nd:
        if not (_in_pmutt(e_nd) or isinstance(e_nd, MissingArgument)):
            raise
        ctx.evals()
        try:
            dim(units=u, **dim_T, **opts)
        except Exception as e_dim:
            if not _in_pmutt(e_dim):
                raise
            ctx.tag('agree:both-forms-raise')
            ctx.refuse('both forms raise (%s / %s)' % (type(e_nd).__name__, type(e_dim).__name__))
        else:
            ctx.refuse('dimensionless twin raises %s; no expected value' % type(e_nd).__name__)
        return
    nd = np.asarray(nd, dtype=float)
    R = ref_R(unit, elements)
    factor = R * T_mult if energy else R
    exp = nd * factor
    scale = (np.abs(nd) + 1.0) * np.abs(factor)

    # ---- clause 1: the dimensional value (an exception here is a violation: run_case reports it)
    obs = dim(units=u, **dim_T, **opts)
    ctx.evals()
    clause = 'value = dimensionless x R(unit)' + (' x T' if energy else '') + \
             (' / molar mass' if fam == 'per-mass' else '')
    ok = ctx.close(clause, obs, exp, sig, c, rtol=1e-10, atol=0.0, scale=scale)

    # ---- clause 6: the same call on the same object again gives the same value, also after the caller has
    #      overwritten the container the first call returned (the result must be a fresh object)
    if ok:
        first = copy.deepcopy(obs)
        _clobber(obs)
        again = dim(units=u, **dim_T, **opts)
        ctx.evals()
        ctx.close('the same call repeated on the same object gives the same value', again, first, sig, c,
                  rtol=1e-10, atol=0.0, scale=scale)
        obs = first
    # ---- clause 7: the caller's arguments are left alone
    ctx.true("the caller's arguments are unchanged after the calls", _same(args_before, (dim_T, opts)), sig, c,
             observed=None if _same(args_before, (dim_T, opts)) else repr((dim_T, opts))[:300],
             expected=repr(args_before)[:300])

    interesting = (fam != 'molar' or c['T'] != 'T500' or kind == 'reaction')

    # ---- clause 2: two units differ by the conversion factor only
    if unit != BASE_UNIT and ok:
        obs_b = dim(units=base_u, **dim_T, **opts)
        ctx.evals()
        ratio = R / ref_R(BASE_UNIT, elements)
        ctx.close('same quantity in two units differs by the unit factor only', obs,
                  np.asarray(obs_b, dtype=float) * ratio, sig, c, rtol=1e-10, atol=0.0, scale=scale)
        if unit in c04_units.JOULE_PER_MOL:
            # the same relation with a conversion factor that does not come from the library's table
            ctx.close('two units differ by the SI conversion factor (independent of the gas-constant table)', obs,
                      np.asarray(obs_b, dtype=float) * c04_units.ratio(unit, BASE_UNIT), sig, c,
                      rtol=c04_units.RATIO_RTOL, atol=0.0, scale=scale)

    # ---- clause 3: options act identically on both forms
    dev = deviating_options(c)
    if dev and ok:
        o0 = options(c, meta, base=True)
        try:
            tkw0 = dict(twin_T)
            tkw0.update(o0)
            nd0 = np.asarray(call_twin(twin, tkw0), dtype=float)
            obs0 = np.asarray(dim(units=u, **dim_T, **o0), dtype=float)
            ctx.evals(2)
        except Exception as e:
            if not (_in_pmutt(e) or isinstance(e, MissingArgument)):
                raise
            ctx.refuse('no option-free value to compare with (%s)' % type(e).__name__)
        else:
            try:
                lhs = np.asarray(obs, dtype=float) - obs0
                rhs = (nd - nd0) * factor
                sc = (np.abs(nd) + np.abs(nd0) + 1.0) * np.abs(factor)
            except ValueError:
                lhs = None        # shapes that do not broadcast (verbose): clause 1 has compared them already
            if lhs is not None:
                ctx.close('options shift the dimensional and the dimensionless form identically', lhs, rhs, sig,
                          c, rtol=1e-10, atol=0.0, scale=sc)
            if lhs is not None and dev == ['S_elements'] and elements and \
                    (q in ('S', 'G') or (q == 'F' and kind == 'species')):
                # clause 9: the entropy-of-elements option refers to the composition the species was GIVEN:
                # S/R falls, F/RT and G/RT rise by sum n_el x S_el/R (pmutt.constants.S_elements, summed here)
                from pmutt import constants as c_
                S_ele = sum(c_.S_elements[el] * n for el, n in sorted(elements.items()))
                ctx.close('S_elements shifts the dimensionless value by the element entropies of the composition '
                          'the species was given', nd - nd0, np.zeros_like(nd) + (-S_ele if q == 'S' else S_ele),
                          sig, c, rtol=1e-10, atol=0.0, scale=np.abs(nd) + np.abs(nd0) + 1.0)
                if meta.get('route'):
                    ctx.tag('route:effective:S_elements')
            if _differs(nd, nd0):
                interesting = True
                if len(dev) == 1:
                    ctx.tag('effective:' + dev[0])
                    if kind == 'empirical' and unit != BASE_UNIT:
                        ctx.tag('stored-unit:%s+effective:%s' % ('asked' if own_unit else 'another-asked', dev[0]))
    if interesting:
        ctx.nontrivial(tuple(str(c[a]) for a in AXES))

    # ---- clause 8: an array argument edited in place between two calls: the value follows the new content
    if ok and isinstance(dim_T.get('T'), (list, np.ndarray)):
        T = dim_T['T']
        if isinstance(T, list):
            T.reverse()
            T[0] = 650.0
        else:
            T[:] = T[::-1].copy()
            T[0] = 650
        T_new = np.array(T, dtype=float)
        try:
            nd_new = np.asarray(call_twin(twin, dict(twin_T, **opts)), dtype=float)
            ctx.evals()
        except Exception as e:
            if not _in_pmutt(e):
                raise
            ctx.refuse('dimensionless twin raises %s after the in-place edit of T' % type(e).__name__)
            return
        factor_new = R * T_new if energy else R
        obs_new = dim(units=u, **dim_T, **opts)
        ctx.evals()
        ctx.trans()
        ctx.tag('T:edited-in-place')
        ctx.close('an array edited in place between two calls gives the value for its new content', obs_new,
                  nd_new * factor_new, sig, c, rtol=1e-10, atol=0.0,
                  scale=(np.abs(nd_new) + 1.0) * np.abs(factor_new))


def make_T(key):
    v = T_VALUES[key]
    if key == 'list3':
        return list(v)
    if key == 'int3':
        return np.array(v, dtype=np.int64)
    if isinstance(v, list):
        return np.array(v, dtype=float)
    return v


def _clobber(x):
    """Overwrite a returned container in place, as a caller that reuses the buffer would."""
    if isinstance(x, np.ndarray) and x.flags.writeable and x.dtype.kind in 'fiu':
        x[...] = 777
    elif isinstance(x, list):
        for i, v in enumerate(x):
            if isinstance(v, (list, np.ndarray, dict)):
                _clobber(v)
            else:
                x[i] = 777
    elif isinstance(x, dict):
        for k in list(x):
            if isinstance(x[k], (list, np.ndarray, dict)):
                _clobber(x[k])
            else:
                x[k] = 777
    elif isinstance(x, tuple):
        for v in x:
            _clobber(v)


def _same(a, b):
    """Structural identity including container type and dtype."""
    if type(a) is not type(b):
        return False
    if isinstance(a, np.ndarray):
        return a.dtype == b.dtype and a.shape == b.shape and bool(np.all(a == b))
    if isinstance(a, dict):
        return list(a) == list(b) and all(_same(a[k], b[k]) for k in a)
    if isinstance(a, (list, tuple)):
        return len(a) == len(b) and all(_same(x, y) for x, y in zip(a, b))
    return a == b


# ------------------------------------------------- histories with two objects
def _edit_after_creation(obj, elements):
    """Edit a copy after it was made: same element set with other counts, and one parameter that moves
    the dimensionless values.  Returns the new composition."""
    new = {k: 2 * v for k, v in elements.items()}
    obj.elements = new
    cls = type(obj).__name__
    if cls == 'Nasa':
        for a in (obj.a_low, obj.a_high):
            a[0] += 0.25
            a[5] += 500.
    elif cls == 'Nasa9':
        for n in obj.nasas:
            n.a[2] += 0.25
    elif cls == 'Shomate':
        obj.a[0] += 2
        obj.a[5] += 3
    elif cls == 'StatMech':
        em = obj.elec_model
        if hasattr(em, 'potentialenergy'):
            em.potentialenergy -= 0.5
        else:                               # the 'constant' preset: stored values
            for attr, d in (('Cv', 1e-5), ('Cp', 1e-5), ('U', -.1), ('H', -.1), ('S', 1e-5), ('F', -.1), ('G', -.1)):
                setattr(em, attr, getattr(em, attr) + d)
    else:
        raise RuntimeError('no edit defined for %s' % cls)
    return new


def signature_pair(c):
    group = [g for g, v in PAIR_GROUPS.items() if c['a'] in v][0]
    kind = kind_of(c['a'])
    return dict(cls=CLASS_OF.get(c['a'], c['a']), inst=c['a'], other=CLASS_OF.get(c['b'], c['b']), hist=c['hist'],
                getter=getter_names(kind, c['q'], c['form'])[0], unit=unit_family(c['unit']), group=group)


def evaluate_pair(c, ctx):
    how, q, form, unit = c['hist'], c['q'], c['form'], c['unit']
    sig = signature_pair(c)
    energy = q in ENERGY_LIKE
    u = unit[:-2] if energy else unit
    fam = unit_family(unit)
    A, mA = build(c['a'])
    elA = dict(mA['elements']) if mA['elements'] and kind_of(c['a']) in ('species', 'empirical') else None
    if how == 'separate':
        B, mB = build(c['b'])
        elB = dict(mB['elements']) if mB['elements'] and kind_of(c['b']) in ('species', 'empirical') else None
    else:
        B = copy.deepcopy(A) if how == 'deepcopy-edit' else type(A).from_dict(A.to_dict())
        elB = _edit_after_creation(B, elA)
    ctx.state(('pair', how, c['a'], c['b'], q, form, unit))
    ctx.trace()
    ctx.tag('hist:' + how)
    if c['a'] in ROUTE_OF:
        ctx.tag('hist:route-pair')
        ctx.tag('route:' + ROUTE_OF[c['a']])
    if elA and elB and sorted(elA) == sorted(elB) and elA != elB:
        ctx.tag('hist:same-element-set')
    ctx.tag('unit:' + fam)

    def relation(obj, elements, clause):
        kind = kind_of(c['a'] if obj is A else c['b'])
        dim_name, nd_name = getter_names(kind, q, form)
        dim, twin = getattr(obj, dim_name), getattr(obj, nd_name)
        ctx.trans()
        try:
            nd = np.asarray(call_twin(twin, {'T': T_SCALAR}), dtype=float)
            ctx.evals()
        except Exception as e_nd:
            if not (_in_pmutt(e_nd) or isinstance(e_nd, MissingArgument)):
                raise
            ctx.evals()
            try:
                dim(units=u, T=T_SCALAR)
            except Exception as e_dim:
                if not _in_pmutt(e_dim):
                    raise
                ctx.tag('agree:both-forms-raise')
                ctx.refuse('both forms raise (%s / %s)' % (type(e_nd).__name__, type(e_dim).__name__))
            else:
                ctx.refuse('dimensionless twin raises %s; no expected value' % type(e_nd).__name__)
            return None
        factor = ref_R(unit, elements) * (T_SCALAR if energy else 1.0)
        obs = dim(units=u, T=T_SCALAR)
        ctx.evals()
        ctx.close(clause, obs, nd * factor, sig, c, rtol=1e-10, atol=0.0, scale=(np.abs(nd) + 1.0) * abs(factor))
        return float(nd)

    cl = 'two objects in one process: each reports its own dimensionless value x its own R(unit) [x T] [/ molar mass]'
    nA = relation(A, elA, cl)
    nB = relation(B, elB, cl)
    relation(A, elA, cl)
    if nA is not None and nB is not None and (_differs(nA, nB) or (fam == 'per-mass' and elA != elB)):
        ctx.nontrivial(('pair', how, c['a'], c['b'], q, form, unit))
    # the object edited after creation (composition dict changed in place)
    if elA and fam == 'per-mass':
        first = sorted(A.elements)[0]
        A.elements[first] += 1
        elA2 = dict(elA)
        elA2[first] += 1
        ctx.tag('hist:elements-edited-in-place')
        relation(A, elA2, 'an object edited after creation reports the value for its new content')
        relation(B, elB, cl)


def check_case(case, ctx):
    if 'hist' in case:
        ctx.run_case(evaluate_pair, case, signature_pair(case))
        return
    # the signature is attached here so that an exception raised by pMuTT is recorded identically
    # during exploration and during replay
    case = dict(_base(kind_of(case['inst'])), **case)      # axes absent from an older record = default
    ctx.run_case(evaluate, case, signature(case))


def run_shard(shard, ctx):
    i, n = shard['i'], shard['n']
    for idx, (kind, c) in enumerate(_gen(shard['tier'])):
        if idx % n != i:
            continue
        check_case(c, ctx)
        if idx % 4099 == i or (kind == 'pair' and idx % 1009 == i):
            ctx.sample(c, limit=2)


CLASS_OF = {'sm_gas': 'StatMech', 'sm_ads': 'StatMech', 'sm_ref': 'StatMech', 'sm_cov': 'StatMech',
            'sm_noel': 'StatMech', 'sm_const': 'StatMech', 'sm_int': 'StatMech', 'nasa_plain': 'Nasa',
            'nasa9_plain': 'Nasa9', 'shomate_plain': 'Shomate', 'shomate_int': 'Shomate', 'rxn_int_ts': 'Reaction',
            'shomate_kJ': 'Shomate', 'shomate_cal_surf': 'Shomate', 'shomate_eV': 'Shomate',
            'nasa_gas': 'Nasa', 'nasa_surf': 'Nasa',
            'nasa_noel': 'Nasa', 'nasa9_gas': 'Nasa9', 'shomate_gas': 'Shomate', 'shomate_surf': 'Shomate',
            'rxn_sm_ts': 'Reaction', 'rxn_sm': 'Reaction', 'rxn_nasa': 'Reaction', 'rxn_mixed': 'Reaction',
            'rxn_bep': 'Reaction', 'chemkin_ts': 'ChemkinReaction', 'chemkin': 'ChemkinReaction',
            'surf_ts': 'SurfaceReaction', 'surf': 'SurfaceReaction',
            'chemkin_ts_low': 'ChemkinReaction', 'surf_ts_low': 'SurfaceReaction',
            'sm_atoms_slab': 'StatMech', 'sm_atoms_part': 'StatMech', 'sm_atoms_same': 'StatMech',
            'sm_atoms_only': 'StatMech', 'nasa_fm_explicit': 'Nasa', 'nasa_fm_inherit': 'Nasa',
            'nasa_fm_class': 'Nasa', 'shomate_fm_class': 'Shomate', 'shomate_fm_inherit': 'Shomate',
            'nasa9_fm_class': 'Nasa9'}

LEVEL_TEXT = ('Deviation-bounded exhaustive product enumeration on the real getters: every combination of model '
              'instance, quantity, unit string (all 16 gas-constant keys plus the per-mass forms), temperature '
              'shape, P, x, S_elements, use_references, verbose, include_ZPE, per-species keyword block, '
              'reaction form, rev, act and del_m that lies within k axes of the base point of each model kind, plus the '
              'full instance x quantity x unit (x form x rev x act) product and a sweep of every wrapper x T shape x single '
              'option, and the same sweep (with and without an option) in every unit string stored by an object of the '
              'alphabet (Shomate.units = J/mol/K, kJ/mol/K, cal/mol/K, eV/K; each object is asked in its own stored unit '
              'and in the others) and in one per-mass unit, and a sweep of every wrapper x unit x one boolean / optional '
              'option passed explicitly as False / None / its default; each case compares get_X(units) with '
              'get_XoR[T] x R(unit) [x T] [/ M] built independently from pmutt.constants, two units against each '
              'other (library factor and SI factor), and the option shift on both forms; then repeats the call '
              '(after overwriting the returned container), checks that the arguments were left alone and, for array '
              'T, edits the array in place and calls again. Two-object histories (separately built, deep-copied and '
              'to_dict/from_dict copies edited after creation) are evaluated A, B, A in one process. Species whose '
              'composition arrives through more than one route (ASE Atoms object next to or instead of elements, '
              'agreeing or not; from_model with explicit, inherited or class-built composition) go through the same '
              'clauses with the molar mass and the element entropies of the composition that was handed over.')
LEVEL_NOTE = ('k = 3 (quick) / 5 (thorough); one parameter set per class (plus integer-typed variants and empirical '
              'species with and without attached models); units outside the gas-constant table, array T for classes '
              'that document a float T and a python-list T for the getters inherited from _ModelBase are outside '
              'the alphabet; accuracy of the tabulated constants is C12 (only ratios of table entries are compared '
              'with SI factors here); factory classmethods other than from_dict are not used to build objects.')
TECHNIQUE = ('deviation-bounded exhaustive product enumeration on the implementation; relation oracle between '
             'each dimensional getter and its dimensionless twin with an independently assembled gas constant')
