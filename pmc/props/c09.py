"""C09 - kinetic parameters respect the reaction's thermodynamics.

Shape B: full products of small option sets executed on the real classes.
  part 'clamp': energy landscapes (H_R, H_TS, H_P) x (S_TS, S_P) with exactly set H and S,
      with / without transition state (explicit or BEP), both directions, ChemkinReaction and
      SurfaceReaction (plus the multi-species pool reactions of C08): get_HoRT_act / get_H_act / get_GoRT_act / get_G_act = max(0, TS - initial,
      final - initial).
  part 'bep':   8 descriptors x slope x intercept x reaction body x T x class: barrier identities.
  part 'A':     pre-exponential factors: entropy route, no-TS limit, site-density scaling, operation.
  part 'shared': objects shared between the 2-3 reactions of a small mechanism (one BEP relation as the transition
      state of all of them / one BEP each with other parameters / copies of the first BEP edited after creation; one
      explicit transition-state species; reactant and product species objects; catalyst sites and interface
      phases): every probe on the reactions in every order, then the shared objects edited in place and evaluated
      again; every single result against the closed form for that reaction alone.
"""
import itertools
import math

import numpy as np

from pmc.engine import core
from pmc.ref import rxn as R

ID = 'C09'
RULE = ('three full products and one family of histories: (clamp) class x species kind x landscape (H_R,H_TS,H_P in {-1,-.5,0,.5,1} eV, '
        'S_TS,S_P in {0,5,-5} R) x TS {none, explicit, BEP(slope,intercept)} x T x P, both directions, four getters; '
        '(bep) descriptor x slope x intercept x body x T x class, both directions; (A) class x reactant pattern '
        '(0-3 surface reactants on 1-2 sites, bulk species, gas partner) x site densities x operation x TS x '
        'entropy option x output units x lambda, and the entropy route on Reaction / ChemkinReaction / SurfaceReaction x '
        'transition state {BEP relation, species, none} x site pattern (same sites on both sides) x operation x '
        'direction {omitted, False, True} x m {0, 1, 2.5, None, omitted} x include_entropy {omitted, True, False}; '
        '(shared) class x group of 2-3 reaction bodies built on ONE set of '
        'species objects x transition state {one BEP shared, one BEP each, deepcopy / to_dict-from_dict copies of the '
        'first BEP edited after creation, one explicit species shared, none} x descriptor x (slope, intercept, keyword '
        'variant: T / T and P / integer-typed numbers) - a history per case: every probe on the reactions in every '
        'order (getter-major and reaction-major), BEP parameters and descriptor edited in place, a shared species '
        'edited in place; and get_A of 2-3 reactions on one set of species / site / phase objects in every order x '
        'every operation.  A case is non-trivial when the clamp is decided by a term '
        'other than the plain barrier, the BEP descriptor is not delta_H, the reaction has >= 2 surface reactants, or '
        'objects are shared between reactions')
ASSUMPTIONS = ['H and S of landscape species are set exactly (NASA polynomials with Cp = 0, or ConstantMode); the '
               'oracle reads them back through the species getters, never through the reaction',
               'surface reactants carry integer coefficients (the statement counts surface reactants)',
               'kB, h, Na and R are the library\'s own constants (their accuracy is C12\'s business)',
               'ChemkinReaction needs species with a phase string: landscapes for it use Nasa species',
               'part shared: conditions are given as plain keywords (T, P), not through per-species <name>_kwargs '
               'dictionaries (their routing is C08\'s business); a BEP transition state carries the entropy of the '
               'reactants (documented default entropy_state)']
EXPLANATION = 'full-product enumeration of small option sets on the real classes; closed-form oracles from species getters'

EV = [-1.0, -0.5, 0.0, 0.5, 1.0]
SR = [0.0, 5.0, -5.0]
TEMPS = [300.0, 900.0]
SLOPES = [0.0, 0.3, 0.5, 1.0]
INTERCEPTS = [0.0, 15.0, 60.0]
DESCRIPTORS = ['delta_H', 'rev_delta_H', 'reactants_H', 'products_H',
               'delta_E', 'rev_delta_E', 'reactants_E', 'products_E']
SDENS = [1e-11, 2.5e-9, 1e-8]
OPS = ['sum', 'min', 'max', 'mean']
LAMBDAS = [0.1, 10.0]
A_UNITS = ['molec/cm2', 'mol/cm2', 'mol/m2', 'molec/A2', 'Units(m,mol)']
EV_T = [-1.0, -0.75, -0.5, -0.25, 0.0, 0.25, 0.5, 0.75, 1.0]
SR_T = [0.0, 5.0, -5.0, 12.0, -12.0]
SLOPES_T = [0.0, 0.15, 0.3, 0.5, 0.75, 1.0]
INTERCEPTS_T = [0.0, 5.0, 15.0, 30.0, 60.0]
KB_EV = 8.617333262e-5      # only used to *choose* inputs; the oracle reads values back from the species

PLANNED_TAGS = (['clamp:pool-body', 'clamp:zero', 'clamp:ts', 'clamp:delta', 'clamp:no-ts', 'clamp:ts-bep', 'clamp:rev',
                 'clamp:cls:ChemkinReaction', 'clamp:cls:SurfaceReaction', 'clamp:P-explicit'] +
                ['bep:' + d for d in DESCRIPTORS] + ['bep:rev', 'bep:exothermic', 'bep:endothermic'] +
                ['A:n_surf=%d' % n for n in range(4)] + ['A:op:' + o for o in OPS] +
                ['A:units:' + u for u in A_UNITS] +
                ['A:bulk-skipped', 'A:two-sites', 'A:entropy-route', 'A:q-route', 'A:m=None', 'A:no-ts',
                 'A:refused:no-site', 'A:cls:Reaction', 'A:cls:ChemkinReaction', 'A:cls:SurfaceReaction'])


# ------------------------------------------------------------------ species with exact H, S
def _nasa(name, H_eV, S_R, phase='S', cat_site=None):
    from pmutt.empirical.nasa import Nasa
    a = [0.0, 0.0, 0.0, 0.0, 0.0, H_eV / KB_EV, S_R]
    return Nasa(name=name, T_low=100., T_mid=500., T_high=3000., a_low=list(a), a_high=list(a),
                phase=phase, cat_site=cat_site, elements={'H': 1})


def _const(name, H_eV, S_R, T):
    from pmutt.statmech import StatMech, ConstantMode
    S = S_R * KB_EV
    return StatMech(name=name, elements={'H': 1},
                    elec_model=ConstantMode(U=H_eV, H=H_eV, S=S, F=H_eV - T * S, G=H_eV - T * S))


def _cls(name):
    if name == 'Reaction':
        from pmutt.reaction import Reaction as c
    elif name == 'ChemkinReaction':
        from pmutt.reaction import ChemkinReaction as c
    else:
        from pmutt.omkm.reaction import SurfaceReaction as c
    return c


def _bep(cls, slope, intercept, descriptor, name='BEP'):
    if cls == 'SurfaceReaction':
        from pmutt.omkm.reaction import BEP
    else:
        from pmutt.reaction.bep import BEP
    return BEP(name=name, slope=slope, intercept=intercept, descriptor=descriptor)


class _Failed(Exception):
    pass


class _Refused(Exception):
    pass


def _make(cls, keys, **kw):
    """Construct the reaction; ChemkinReaction reads species.phase at construction and a StatMech
    species has none - that is the model refusing, not a violation."""
    try:
        return _cls(cls)(**kw)
    except AttributeError as e:
        if cls == 'ChemkinReaction' and "no attribute 'phase'" in str(e) and any(k in R.STATMECH_KEYS for k in keys):
            raise _Refused('ChemkinReaction: StatMech species have no .phase')
        raise


def _call(ctx, sig, case, fn, *a, **kw):
    ctx.evals()
    try:
        return fn(*a, **kw)
    except Exception as e:                     # noqa
        where = core.classify_exception(e)
        if where is None:
            raise
        s = dict(sig, exc=type(e).__name__, where=where)
        ctx.fail('getter evaluates', s, case, '%s: %s' % (type(e).__name__, str(e)[:200]), 'a value')
        raise _Failed()


def _f(v):
    a = np.asarray(v, dtype=float)
    return float(a.ravel()[0]) if a.size == 1 else a


def _lat(tier):
    if tier == 'thorough':
        return EV_T, SR_T, SLOPES_T, INTERCEPTS_T
    return EV, SR, SLOPES, INTERCEPTS


# ================================================================== part 'clamp'
def _clamp_cases(tier):
    out = []
    kinds = [('ChemkinReaction', 'nasa'), ('SurfaceReaction', 'nasa'), ('SurfaceReaction', 'const')]
    temps = TEMPS
    EV, SR, SLOPES, INTERCEPTS = _lat(tier)
    for (cls, kind), T in itertools.product(kinds, temps):
        # explicit TS: 125 x 9
        for hr, ht, hp in itertools.product(EV, EV, EV):
            for st, sp in itertools.product(SR, SR):
                out.append(dict(part='clamp', cls=cls, kind=kind, T=T, P=None, H=[hr, ht, hp], S=[0.0, st, sp],
                                ts='explicit', nu=[1.0, 1.0, 1.0]))
        # no TS: 25 x 3
        for hr, hp in itertools.product(EV, EV):
            for sp in SR:
                out.append(dict(part='clamp', cls=cls, kind=kind, T=T, P=None, H=[hr, None, hp],
                                S=[0.0, None, sp], ts='none', nu=[1.0, 1.0, 1.0]))
        # BEP TS: 25 x 3 x slopes x intercepts (quick: T = 300 only)
        if tier == 'thorough' or T == TEMPS[0]:
            for hr, hp in itertools.product(EV, EV):
                for sp in SR:
                    for m, b in itertools.product(SLOPES, INTERCEPTS):
                        out.append(dict(part='clamp', cls=cls, kind=kind, T=T, P=None, H=[hr, None, hp],
                                        S=[0.0, None, sp], ts='bep', bep=[m, b], nu=[1.0, 1.0, 1.0]))
    # gas-phase reactant with an explicit pressure, and non-unit coefficients (Nasa kinds)
    nus = [[2.0, 1.0, 0.5], [0.5, 1.5, 3.0]]
    for (cls, kind), T, nu in itertools.product(kinds[:2], temps, nus):
        sub = EV if tier == 'thorough' else EV[::2]
        for hr, ht, hp in itertools.product(sub, sub, sub):
            for st in SR:
                out.append(dict(part='clamp', cls=cls, kind=kind, T=T, P=0.2, H=[hr, ht, hp], S=[0.0, st, 5.0],
                                ts='explicit', nu=nu, gas=True))
    # the multi-species reactions of the C08 pool, written in both directions
    for (body, fam), tsk, T, P, swap in itertools.product(
            [(b, 'sm') for b in BODIES_SM] + [(b, 'emp') for b in BODIES_EMP],
            [None, [['TSM', 1.0]], [['TSN', 0.5]], [['BEP', 1.0]], [['TSN', 1.0], ['TS2', 2.0]]],
            temps, [None, 0.2], (False, True)):
        rs, ps = (body[1], body[0]) if swap else body
        for cls in ('ChemkinReaction', 'SurfaceReaction'):
            if cls == 'ChemkinReaction' and any(k in R.STATMECH_KEYS for k, _ in rs):
                continue
            out.append(dict(part='clamp', cls=cls, kind='pool', T=T, P=P, R=rs, P_side=ps, TS=tsk,
                            ts='none' if tsk is None else ('bep' if tsk[0][0] == 'BEP' else 'explicit')))
    return out


def _clamp_build(case):
    T = case['T']
    hr, ht, hp = case['H']
    sr, st, sp = case['S']
    if case['kind'] == 'nasa':
        r = _nasa('R1', hr, sr, phase='G' if case.get('gas') else 'S')
        p = _nasa('P1', hp, sp)
        t = _nasa('T1', ht, st) if case['ts'] == 'explicit' else None
    else:
        r, p = _const('R1', hr, sr, T), _const('P1', hp, sp, T)
        t = _const('T1', ht, st, T) if case['ts'] == 'explicit' else None
    if case['ts'] == 'bep':
        t = _bep(case['cls'], case['bep'][0], case['bep'][1], 'delta_H')
    nu = case['nu']
    kw = dict(reactants=[r], reactants_stoich=[nu[0]], products=[p], products_stoich=[nu[2]])
    if t is not None:
        kw.update(transition_state=[t], transition_state_stoich=[nu[1]])
    return _cls(case['cls'])(**kw), r, t, p


def _pool_build(case):
    objs = {}

    def get(k):
        if k not in objs:
            objs[k] = _bep(case['cls'], 0.375, 11.5, 'delta_H') if k == 'BEP' else R.build_species(k)
        return objs[k]
    rs = [(get(k), nu) for k, nu in case['R']]
    ps = [(get(k), nu) for k, nu in case['P_side']]
    ts = [(get(k), nu) for k, nu in case['TS']] if case['TS'] else None
    kw = dict(reactants=[s for s, _ in rs], reactants_stoich=[nu for _, nu in rs],
              products=[s for s, _ in ps], products_stoich=[nu for _, nu in ps])
    if ts:
        kw.update(transition_state=[s for s, _ in ts], transition_state_stoich=[nu for _, nu in ts])
    return _make(case['cls'], [k for k, _ in case['R'] + case['P_side']], **kw), rs, ts, ps


def _check_clamp(case, ctx):
    from pmutt import constants as c
    T = case['T']
    kw = {'T': T}
    if case['P'] is not None:
        kw['P'] = case['P']
        ctx.tag('clamp:P-explicit')
    if case['kind'] == 'pool':
        rxn, rs, ts, ps = _pool_build(case)
        ctx.tag('clamp:pool-body')
    else:
        rxn, r, t, p = _clamp_build(case)
        nu = case['nu']
        rs, ps, ts = [(r, nu[0])], [(p, nu[2])], (None if t is None else [(t, nu[1])])
    ctx.trace()
    ctx.tag('clamp:cls:' + case['cls'])
    for quant, short in (('HoRT', 'H'), ('GoRT', 'G')):
        def tot(side):
            t_ = [(n, R.species_value(sp, quant, kw, reaction=rxn)) for sp, n in side]
            return R.combine(t_, quant), R.magnitude(t_)
        xr, mr = tot(rs)
        xp, mp = tot(ps)
        xt, mt = tot(ts) if ts else (None, 0.0)
        mag = mr + mp + mt + 1.0
        for rev in (False, True):
            ini, fin = (xp, xr) if rev else (xr, xp)
            cands = [('zero', 0.0), ('delta', fin - ini)]
            if xt is not None:
                cands.append(('ts', xt - ini))
            exp = max(v for _, v in cands)
            win = [n for n, v in cands if v == exp][0]
            ctx.tag('clamp:' + win)
            if rev:
                ctx.tag('clamp:rev')
            if xt is None:
                ctx.tag('clamp:no-ts')
            if case['ts'] == 'bep':
                ctx.tag('clamp:ts-bep')
            if win != 'ts':
                ctx.nontrivial(case)
            sig = dict(part='clamp', cls=case['cls'], getter='get_%s_act' % quant, rev=rev, ts=case['ts'])
            try:
                v = _f(_call(ctx, sig, case, getattr(rxn, 'get_%s_act' % quant), rev=rev, **kw))
                ctx.close('dimensionless activation quantity = max(0, TS - initial, final - initial)', v, exp,
                          sig, case, rtol=1e-10, atol=1e-10, scale=mag)
                ctx.true('clamped activation quantity >= thermodynamic minimum',
                         v >= max(0.0, fin - ini) - 1e-10 * mag, sig, case, v, max(0.0, fin - ini))
            except _Failed:
                pass
            for units in ('kcal/mol', 'J/mol'):
                fac = c.R(units + '/K') * T
                sig = dict(part='clamp', cls=case['cls'], getter='get_%s_act' % short, rev=rev, ts=case['ts'])
                kwd = {k: v for k, v in kw.items() if k != 'T'}
                try:
                    v = _f(_call(ctx, sig, case, getattr(rxn, 'get_%s_act' % short), units=units, T=T, rev=rev,
                                 **kwd))
                    ctx.close('activation quantity in energy units = max(0, TS - initial, final - initial) x RT',
                              v, exp * fac, sig, case, rtol=1e-10, atol=1e-10 * fac, scale=mag * fac)
                except _Failed:
                    pass


# ================================================================== part 'bep'
BODIES_SM = [  # (reactants, products) with coefficients; StatMech species: H != E, U != H for the gas
    ([['SG', 1.0]], [['SA', 2.0]]),
    ([['SG', 0.5], ['SA', 1.0]], [['CM', 1.0]]),
    ([['SA', 2.0]], [['SG', 1.0], ['CM', 0.25]]),
    ([['CM', 1.0]], [['SA', 1.5]]),
]
BODIES_EMP = [  # empirical species: H descriptors only
    ([['XSG', 1.0]], [['NS', 2.0]]),
    ([['XSG', 0.5], ['NS', 1.0]], [['N9', 1.0]]),
    ([['SH', 1.0], ['NS', 2.0]], [['XSG', 1.0], ['SA', 1.0]]),
]


def _bep_cases(tier):
    out = []
    slopes, INTERCEPTS = _lat(tier)[2], _lat(tier)[3]
    for desc in DESCRIPTORS:
        bodies = [(b, 'sm') for b in BODIES_SM] + ([(b, 'emp') for b in BODIES_EMP] if desc.endswith('_H') else [])
        for (body, fam), m, b, T in itertools.product(bodies, slopes, INTERCEPTS, TEMPS):
            classes = ['Reaction', 'SurfaceReaction'] + (['ChemkinReaction'] if fam == 'emp' and all(
                k not in R.STATMECH_KEYS for k, _ in body[0]) else [])
            for cls in classes:
                for swap in (False, True):      # swap = the same body written in the other direction
                    if swap and tier == 'quick' and cls != 'Reaction':
                        continue
                    rs, ps = (body[1], body[0]) if swap else body
                    if cls == 'ChemkinReaction' and any(k in R.STATMECH_KEYS for k, _ in rs):
                        continue
                    out.append(dict(part='bep', cls=cls, desc=desc, slope=m, intercept=b, T=T, R=rs, P=ps,
                                    nu_ts=1.0))
    return out


def _check_bep(case, ctx):
    from pmutt import constants as c
    cls, T = case['cls'], case['T']
    objs = {}

    def get(k):
        if k not in objs:
            objs[k] = R.build_species(k)
        return objs[k]
    rs = [(get(k), nu) for k, nu in case['R']]
    ps = [(get(k), nu) for k, nu in case['P']]
    bep = _bep(cls, case['slope'], case['intercept'], case['desc'])
    rxn = _make(cls, [k for k, _ in case['R'] + case['P']],
                reactants=[s for s, _ in rs], reactants_stoich=[nu for _, nu in rs],
                products=[s for s, _ in ps], products_stoich=[nu for _, nu in ps],
                transition_state=[bep], transition_state_stoich=[case['nu_ts']])
    ctx.trace()
    desc = case['desc']
    ctx.tag('bep:' + desc)
    kw = {'T': T}
    q = 'HoRT' if desc.endswith('_H') else 'EoRT'
    RT = c.R('kcal/mol/K') * T

    def state(side, quant):
        t = [(nu, R.species_value(sp, quant, kw)) for sp, nu in side]
        return R.combine(t, quant), R.magnitude(t)
    xr, mr = state(rs, q)
    xp, mp = state(ps, q)
    hr, mhr = state(rs, 'HoRT')
    hp, mhp = state(ps, 'HoRT')
    ur = state(rs, 'UoRT')[0] if all(k in R.STATMECH_KEYS for k, _ in case['R']) else None
    ctx.tag('bep:exothermic' if hp < hr else 'bep:endothermic')
    if desc != 'delta_H':
        ctx.nontrivial(case)
    mag = (mr + mp + mhr + mhp + 1.0)
    base = dict(part='bep', descriptor=desc)
    Ea = {}
    for rev in (False, True):
        sig = dict(base, getter='BEP.get_E_act', rev=rev)
        try:
            Ea[rev] = _f(_call(ctx, sig, case, bep.get_E_act, units='kcal/mol', reaction=rxn, rev=rev, **kw))
        except _Failed:
            pass
    if len(Ea) < 2:
        return
    ctx.tag('bep:rev')
    # (1) the relation itself, in the descriptor's own direction: Ea = slope * descriptor + intercept [kcal/mol]
    d = {'delta': xp - xr, 'rev_delta': xr - xp, 'reactants': xr, 'products': xp}[desc.rsplit('_', 1)[0]] * RT
    own = desc.startswith('rev_')
    ctx.close('barrier in the descriptor\'s own direction = slope x descriptor + intercept (kcal/mol)', Ea[own],
              case['slope'] * d + case['intercept'], dict(base, getter='BEP.get_E_act', rev=own), case,
              rtol=1e-10, atol=1e-9, scale=mag * RT + case['intercept'])
    # (2) forward - reverse barrier = reaction enthalpy (energy), delta descriptors
    if 'delta' in desc:
        ctx.close('forward - reverse BEP barrier = reaction enthalpy (energy) for the delta descriptors',
                  Ea[False] - Ea[True], (xp - xr) * RT, dict(base, law='Ea_f - Ea_r = delta'), case,
                  rtol=1e-10, atol=1e-9, scale=mag * RT + case['intercept'])
    # (3) same barrier from the relation and from the reaction's transition-state enthalpy, both directions
    for rev in (False, True):
        sig = dict(base, law='relation = TS enthalpy route', rev=rev)
        try:
            direct = _f(_call(ctx, sig, case, bep.get_EoRT_act, reaction=rxn, rev=rev, **kw))
            via_ts = _f(_call(ctx, sig, case, rxn.get_delta_HoRT, rev=rev, act=True, **kw))
        except _Failed:
            continue
        ctx.close('BEP barrier from the relation = barrier through the reaction\'s transition-state enthalpy',
                  direct, via_ts / 1.0, sig, case, rtol=1e-10, atol=1e-10,
                  scale=mag + case['intercept'] / RT)
        ctx.close('get_EoRT_act x RT = get_E_act', direct * RT, Ea[rev], dict(base, law='EoRT_act vs E_act', rev=rev),
                  case, rtol=1e-10, atol=1e-9, scale=mag * RT + case['intercept'])
    # (4) internal-energy and enthalpy offsets use the same barrier
    if ur is not None:
        sig = dict(base, law='U offset = H offset')
        try:
            u = _f(_call(ctx, sig, case, bep.get_UoRT, reaction=rxn, **kw))
            h = _f(_call(ctx, sig, case, bep.get_HoRT, reaction=rxn, **kw))
        except _Failed:
            return
        ctx.close('BEP get_UoRT - U_reactants = get_HoRT - H_reactants (same barrier)', u - ur, h - hr, sig, case,
                  rtol=1e-10, atol=1e-10, scale=mag + case['intercept'] / RT)
        ctx.close('BEP get_HoRT - H_reactants = forward barrier / RT', h - hr, Ea[False] / RT,
                  dict(base, law='H offset = forward barrier'), case, rtol=1e-10, atol=1e-10,
                  scale=mag + case['intercept'] / RT)


# ================================================================== part 'A'
# reactant patterns: list of (role, coefficient); roles: gas, A (site 1), B (site 2), bulk
PATTERNS = [
    [('gas', 1.0)],
    [('gas', 1.0), ('A', 1.0)],
    [('A', 1.0)],
    [('A', 2.0)],
    [('A', 1.0), ('B', 1.0)],
    [('gas', 0.5), ('A', 2.0)],
    [('A', 1.0), ('bulk', 1.0)],
    [('A', 3.0)],
    [('A', 2.0), ('B', 1.0)],
    [('B', 1.0), ('A', 2.0)],
    [('A', 1.0), ('B', 1.0), ('bulk', 2.0), ('gas', 1.0)],
]


def _A_cases(tier):
    out = []
    # (i) entropy route on plain Reaction: S landscape x m x rev x T x species kind
    for kind, T, m, (st, sp, sr) in itertools.product(['nasa', 'const', 'statmech'], TEMPS, [0, 1, None, 2.5],
                                                      itertools.product(SR, SR, [0.0, 5.0])):
        for nu in ([1.0, 1.0, 1.0], [2.0, 1.0, 0.5]):
            out.append(dict(part='A', sub='entropy', cls='Reaction', kind=kind, T=T, m=m, S=[sr, st, sp], nu=nu))
    # (ii) site densities
    sd_pairs = [(a, b) for a in SDENS for b in SDENS]
    for cls in ('ChemkinReaction', 'SurfaceReaction'):
        for pi, pat in enumerate(PATTERNS):
            two = any(r == 'B' for r, _ in pat)
            for (sa, sb) in (sd_pairs if two else [(a, a) for a in SDENS]):
                for op in OPS:
                    for ts in (False, True):
                        units = A_UNITS if cls == 'SurfaceReaction' else [None]
                        if tier == 'quick' and cls == 'SurfaceReaction':
                            # pairwise: every unit system with every pattern/op, site densities cycled
                            units = A_UNITS if (sa, sb) in ((SDENS[1], SDENS[1]), (SDENS[0], SDENS[2])) else A_UNITS[:1]
                        for u in units:
                            out.append(dict(part='A', sub='sden', cls=cls, pattern=pi, sden=[sa, sb], op=op, ts=ts,
                                            units=u, T=TEMPS[0] if (pi + ts) % 2 == 0 else TEMPS[1], dS=5.0 if ts else 0.0))
    return out + _tsA_cases(tier)


def _A_build_sden(case, lam=1.0):
    """Reaction with the pattern's reactants; every site density multiplied by lam."""
    cls = case['cls']
    pat = PATTERNS[case['pattern']]
    sa, sb = case['sden'][0] * lam, case['sden'][1] * lam
    reactants, stoich = [], []
    if cls == 'ChemkinReaction':
        from pmutt.chemkin import CatSite
        sites = {'A': CatSite(name='siteA', site_density=sa, density=21.4, bulk_specie='BULK'),
                 'B': CatSite(name='siteB', site_density=sb, density=12.0, bulk_specie='BULK')}
        for i, (role, nu) in enumerate(pat):
            if role == 'gas':
                sp = _nasa('G%d' % i, 0.1, 3.0, phase='G')
            elif role == 'bulk':
                sp = _nasa('BULK', 0.0, 0.0, phase='S', cat_site=sites['A'])
            else:
                sp = _nasa('%s%d' % (role, i), -0.2, 1.0, phase='S', cat_site=sites[role])
            reactants.append(sp)
            stoich.append(nu)
        prod = _nasa('PR', -0.3, 2.0, phase='S', cat_site=sites['A'])
        ts = _nasa('TSx', 0.4, case['dS'] + sum(nu * (3.0 if r == 'gas' else 0.0 if r == 'bulk' else 1.0)
                                                for r, nu in pat), phase='S', cat_site=sites['A'])
    else:
        from pmutt.omkm.phase import InteractingInterface, StoichSolid, IdealGas
        groups = {'gas': [], 'A': [], 'B': [], 'bulk': []}
        for i, (role, nu) in enumerate(pat):
            if role == 'gas':
                sp = _nasa('G%d' % i, 0.1, 3.0, phase='G')
            elif role == 'bulk':
                sp = _nasa('BULK', 0.0, 0.0, phase='S')
            else:
                sp = _nasa('%s%d' % (role, i), -0.2, 1.0, phase='S')
            groups[role].append(sp)
            reactants.append(sp)
            stoich.append(nu)
        prod = _nasa('PR', -0.3, 2.0, phase='S')
        ts = _nasa('TSx', 0.4, case['dS'] + sum(nu * (3.0 if r == 'gas' else 0.0 if r == 'bulk' else 1.0)
                                                for r, nu in pat), phase='S')
        if groups['gas']:
            IdealGas(name='gasphase', species=groups['gas'])
        if groups['bulk']:
            StoichSolid(name='bulkphase', species=groups['bulk'])
        InteractingInterface(name='ifaceA', species=groups['A'] + [prod, ts], site_density=sa)
        if groups['B']:
            InteractingInterface(name='ifaceB', species=groups['B'], site_density=sb)
    kw = dict(reactants=reactants, reactants_stoich=stoich, products=[prod], products_stoich=[1.0])
    if case['ts']:
        kw.update(transition_state=[ts], transition_state_stoich=[1.0])
    return _cls(cls)(**kw)


def _units_arg(u):
    if u == 'Units(m,mol)':
        from pmutt.omkm.units import Units
        return Units(length='m', quantity='mol')
    return u


def _sden_factor(u):
    """site density in the requested units per (mol/cm2), from the unit definitions"""
    from pmutt import constants as c
    if u is None:
        return 1.0
    qty, area = ('mol', 'm2') if u == 'Units(m,mol)' else u.split('/')
    per_mol = {'mol': 1.0, 'molec': c.Na}[qty]
    area_per_cm2 = {'cm2': 1.0, 'm2': 1e-4, 'A2': 1e16}[area]
    return per_mol / area_per_cm2


def _check_A(case, ctx):
    from pmutt import constants as c
    kbh = c.kb('J/K') / c.h('J s')
    ctx.tag('A:cls:' + case['cls'])
    if case['sub'] == 'tsA':
        return _check_tsA(case, ctx)
    if case['sub'] == 'entropy':
        T, nu, m = case['T'], case['nu'], case['m']
        sr, st, sp = case['S']
        if case['kind'] == 'nasa':
            r, t, p = _nasa('R1', 0.0, sr), _nasa('T1', 0.5, st), _nasa('P1', -0.2, sp)
        elif case['kind'] == 'const':
            r, t, p = _const('R1', 0.0, sr, T), _const('T1', 0.5, st, T), _const('P1', -0.2, sp, T)
        else:
            r, t, p = R.build_species('SG'), R.build_species('TSM'), R.build_species('SA')
        rxn = _cls('Reaction')(reactants=[r], reactants_stoich=[nu[0]], products=[p], products_stoich=[nu[2]],
                               transition_state=[t], transition_state_stoich=[nu[1]])
        ctx.trace()
        kw = {'T': T}
        S = {'r': nu[0] * R.species_value(r, 'SoR', kw), 't': nu[1] * R.species_value(t, 'SoR', kw),
             'p': nu[2] * R.species_value(p, 'SoR', kw)}
        ctx.tag('A:entropy-route')
        if m is None:
            ctx.tag('A:m=None')
        for rev in (False, True):
            dS = S['t'] - (S['p'] if rev else S['r'])
            mm = m if m is not None else (nu[2] if rev else nu[0])
            sig = dict(part='A', cls='Reaction', law='entropy route', rev=rev, m='None' if m is None else 'given')
            try:
                A = _f(_call(ctx, sig, case, rxn.get_A, T=T, rev=rev, m=m, use_q=False))
            except _Failed:
                continue
            ctx.true('pre-exponential factor > 0', A > 0 and math.isfinite(A), sig, case, A, '> 0')
            ctx.close('A = (kB T / h) exp(deltaS_act/R + m) by the entropy route', math.log(A),
                      math.log(kbh * T) + dS + mm, sig, case, rtol=1e-10, atol=1e-10,
                      scale=abs(S['t']) + abs(S['p']) + abs(S['r']) + 40.0)
            if case['kind'] == 'statmech':
                sig = dict(part='A', cls='Reaction', law='q route positive', rev=rev)
                try:
                    Aq = _f(_call(ctx, sig, case, rxn.get_A, T=T, rev=rev, m=m, use_q=True))
                except _Failed:
                    continue
                ctx.tag('A:q-route')
                ctx.true('pre-exponential factor > 0', Aq > 0 and math.isfinite(Aq), sig, case, Aq, '> 0')
        return

    # ---- site densities
    cls, pat, op = case['cls'], PATTERNS[case['pattern']], case['op']
    sa, sb = case['sden']
    T = case['T']
    u = case['units']
    n_surf = sum(nu for r, nu in pat if r in ('A', 'B'))
    ctx.tag('A:n_surf=%d' % n_surf)
    ctx.tag('A:op:' + op)
    if u is not None:
        ctx.tag('A:units:' + u)
    if any(r == 'bulk' for r, _ in pat):
        ctx.tag('A:bulk-skipped')
    if any(r == 'B' for r, _ in pat):
        ctx.tag('A:two-sites')
    if not case['ts']:
        ctx.tag('A:no-ts')
    if n_surf >= 2:
        ctx.nontrivial(case)
    sig0 = dict(part='A', cls=cls, n_surf=int(n_surf), op=op)
    # reference effective site density: one entry per unit coefficient of each surface reactant
    dens = []
    for r, nu in pat:
        if r in ('A', 'B'):
            dens.extend([sa if r == 'A' else sb] * int(nu))
    kwargs = dict(sden_operation=op, T=T)
    if u is not None:
        kwargs['units'] = _units_arg(u)
    if case['ts']:
        kwargs['use_q'] = False
    A = {}
    for lam in [1.0] + LAMBDAS:
        rxn = _A_build_sden(case, lam)
        ctx.trace()
        if not dens:
            if cls == 'SurfaceReaction':
                # documented refusal: no reactant with a site density
                try:
                    rxn.get_A(**kwargs)
                except ValueError:
                    ctx.refuse('SurfaceReaction.get_A without any surface reactant (documented ValueError)')
                    ctx.tag('A:refused:no-site')
                    return
                ctx.fail('SurfaceReaction.get_A without a site raises ValueError', sig0, case, 'no error', 'ValueError')
                return
        sig = dict(sig0, law='value')
        try:
            A[lam] = _f(_call(ctx, sig, case, rxn.get_A, **kwargs))
        except _Failed:
            return
        ctx.true('pre-exponential factor > 0', A[lam] > 0 and math.isfinite(A[lam]), sig, case, A[lam], '> 0')
    if not all(math.isfinite(v) and v > 0 for v in A.values()):
        return
    if dens:
        eff = {'sum': math.fsum(dens), 'min': min(dens), 'max': max(dens), 'mean': math.fsum(dens) / len(dens)}[op]
        eff *= _sden_factor(u)
    else:
        eff = 1.0       # gas-phase reaction: no site density enters
    dS = case['dS'] if case['ts'] else 0.0
    if case['ts']:
        ctx.tag('A:entropy-route')
    # value: A x sigma_eff^(n_surf-1) = kB/h (x exp(dS_act) with a transition state, entropy route)
    ctx.close('A x sigma_eff^(n_surf - 1) = kB/h [x exp(deltaS_act/R)]: sigma_eff follows the operation, '
              'kB/h per unit temperature without a transition state',
              math.log(A[1.0]), math.log(kbh) + dS - (n_surf - 1) * math.log(eff), dict(sig0, law='value',
                                                                                        ts=bool(case['ts'])),
              case, rtol=1e-10, atol=1e-9, scale=40.0 + abs(n_surf - 1) * abs(math.log(eff)))
    for lam in LAMBDAS:
        # a gas-phase reaction has no site whose density could be scaled: A must not move
        expo = (1 - n_surf) if dens else 0.0
        ctx.close('site densities x lambda multiply A by lambda^(1 - n_surf)', math.log(A[lam] / A[1.0]),
                  expo * math.log(lam), dict(sig0, law='scaling'), case, rtol=1e-10, atol=1e-9, scale=10.0)


# ------------------------------------------------------------------ part 'A', sub 'tsA'
# The entropy route on the classes that write kinetic-model files (and on Reaction with a BEP): every kind of
# transition state {BEP relation, explicit species, none} x direction {omitted, False, True} x m {0, 1, 2.5, None,
# omitted} x include_entropy {omitted, True, False} on one reaction object, every combination against
# (kB/h) exp(deltaS_act/R + m) sigma_eff^(1 - n_surf), deltaS_act = S_TS - S_initial from the species getters (a BEP
# relation carries the entropy of the reactants - documented default).  Both sides of a pattern put the same number of
# species on the same sites, so "the number of surface reactants" and sigma_eff do not depend on how `rev` is read.
TSA_PATTERNS = [
    ([('A', 1.0)], [('A', 1.0)]),
    ([('A', 1.0), ('B', 1.0)], [('B', 1.0), ('A', 1.0)]),
    ([('gas', 1.0), ('A', 1.0)], [('A', 1.0)]),
    ([('A', 2.0)], [('A', 1.0), ('A', 1.0)]),
    ([('gas', 0.5), ('A', 1.0), ('bulk', 1.0)], [('A', 1.0), ('gas', 1.0)]),
]
TSA_TS = ['bep', 'bep0', 'explicit', 'none']
TSA_BEP = {'bep': (0.3, 15.0, 'delta_H'), 'bep0': (0, 0, 'rev_delta_H')}      # bep0: integer-typed boundary values
TSA_SP = [4.0, -3.0]                    # entropy level of the products (reactants 1 ... 3 R): S_R != S_P either way
TSA_M = [0, 1, 2.5, None, 'omitted']
TSA_REV = ['omitted', False, True]
TSA_INC = ['omitted', True, False]
PLANNED_TAGS += ['A:tsA:' + t for t in ('bep', 'explicit', 'none')] + [
    'A:tsA:rev', 'A:tsA:rev-omitted', 'A:tsA:m-omitted', 'A:tsA:m=None', 'A:tsA:include_entropy=False',
    'A:tsA:include_entropy-omitted', 'A:tsA:int-T', 'A:tsA:use_q-omitted', 'A:tsA:second-call',
    'A:tsA:cls:Reaction', 'A:tsA:cls:ChemkinReaction', 'A:tsA:cls:SurfaceReaction']


def _tsA_cases(tier):
    out = []
    sdens = [[SDENS[1], SDENS[0]]] + ([[SDENS[0], SDENS[2]]] if tier == 'thorough' else [])
    for ci, cls in enumerate(('ChemkinReaction', 'SurfaceReaction', 'Reaction')):
        for pi in range(len(TSA_PATTERNS)):
            for tsk in TSA_TS:
                if cls == 'Reaction' and tsk == 'none':
                    continue                    # Reaction.get_A is the transition-state expression itself
                for sP in TSA_SP:
                    for oi, op in enumerate(OPS if cls != 'Reaction' else [None]):
                        for sden in sdens:
                            Ts = TEMPS if tier == 'thorough' else [TEMPS[(pi + oi) % 2]]
                            if cls == 'SurfaceReaction':
                                units = A_UNITS if tier == 'thorough' else [A_UNITS[(pi + oi) % len(A_UNITS)]]
                            else:
                                units = [None]
                            for T in Ts:
                                for u in units:
                                    out.append(dict(part='A', sub='tsA', cls=cls, pattern=pi, ts=tsk, sP=sP, op=op,
                                                    sden=sden, units=u, T=T, dS=5.0,
                                                    intT=bool((pi + ci + oi) % 2)))
    return out


def _tsA_build(case):
    cls = case['cls']
    rpat, ppat = TSA_PATTERNS[case['pattern']]
    sa, sb = case['sden']
    if cls == 'ChemkinReaction':
        from pmutt.chemkin import CatSite
        sites = {'A': CatSite(name='siteA', site_density=sa, density=21.4, bulk_specie='BULK'),
                 'B': CatSite(name='siteB', site_density=sb, density=12.0, bulk_specie='BULK')}
    else:
        sites = {'A': None, 'B': None}
    groups = {'gas': [], 'A': [], 'B': [], 'bulk': []}

    def mk(name, role, H, S):
        if role == 'gas':
            sp = _nasa(name, H + 0.3, S + 2.0, phase='G')
        elif role == 'bulk':
            sp = _nasa('BULK', 0.0, 0.25, phase='S', cat_site=sites['A'])
        else:
            sp = _nasa(name, H, S, phase='S', cat_site=sites[role])
        groups[role].append(sp)
        return sp
    rs = [(mk('R%d' % i, role, -0.2, 1.0 + 0.75 * i), nu) for i, (role, nu) in enumerate(rpat)]
    ps = [(mk('P%d' % j, role, -0.3 - 0.1 * j, case['sP'] + 0.5 * j), nu) for j, (role, nu) in enumerate(ppat)]
    ts = None
    if case['ts'] == 'explicit':
        # entropy written directly; the oracle reads it back through the species getter
        s_ts = case['dS'] + sum(nu * (1.0 + 0.75 * i + (2.0 if role == 'gas' else 0.0))
                                for i, (role, nu) in enumerate(rpat))
        ts = mk('TSx', 'A', 0.4, s_ts)
    elif case['ts'] != 'none':
        m_, b_, d_ = TSA_BEP[case['ts']]
        ts = _bep(cls, m_, b_, d_)
    if cls == 'SurfaceReaction':
        from pmutt.omkm.phase import InteractingInterface, StoichSolid, IdealGas
        if groups['gas']:
            IdealGas(name='gasphase', species=groups['gas'])
        if groups['bulk']:
            StoichSolid(name='bulkphase', species=groups['bulk'])
        InteractingInterface(name='ifaceA', species=groups['A'], site_density=sa)
        if groups['B']:
            InteractingInterface(name='ifaceB', species=groups['B'], site_density=sb)
    kw = dict(reactants=[s_ for s_, _ in rs], reactants_stoich=[n_ for _, n_ in rs],
              products=[s_ for s_, _ in ps], products_stoich=[n_ for _, n_ in ps])
    if ts is not None:
        kw.update(transition_state=[ts], transition_state_stoich=[1.0])
    return _cls(cls)(**kw), rs, ps, ts


def _check_tsA(case, ctx):
    from pmutt import constants as c
    kbh = c.kb('J/K') / c.h('J s')
    cls, tsk, op, u = case['cls'], case['ts'], case['op'], case['units']
    kind = 'bep' if tsk.startswith('bep') else tsk
    rpat, ppat = TSA_PATTERNS[case['pattern']]
    sa, sb = case['sden']
    T = case['T']
    Tc = int(T) if case['intT'] else T
    ctx.tag('A:tsA:cls:' + cls)
    ctx.tag('A:tsA:' + kind)
    if case['intT']:
        ctx.tag('A:tsA:int-T')
    ctx.nontrivial(case)
    rxn, rs, ps, ts = _tsA_build(case)
    ctx.trace()
    kwf = {'T': float(T)}
    S_r = math.fsum(nu * R.species_value(sp, 'SoR', kwf) for sp, nu in rs)
    S_p = math.fsum(nu * R.species_value(sp, 'SoR', kwf) for sp, nu in ps)
    if kind == 'explicit':
        S_t = R.species_value(ts, 'SoR', kwf)
    elif kind == 'bep':
        S_t = S_r                       # documented: the relation carries the entropy of the reactants
    else:
        S_t = None
    mag = 40.0 + math.fsum(abs(nu * R.species_value(sp, 'SoR', kwf)) for sp, nu in rs + ps) + abs(S_t or 0.0)
    # site-density factor (the same from either side of these patterns)
    if cls == 'Reaction':
        ln_site = 0.0
    else:
        dens = []
        for role, nu in rpat:
            if role in ('A', 'B'):
                dens.extend([sa if role == 'A' else sb] * int(nu))
        n_surf = sum(nu for role, nu in rpat if role in ('A', 'B'))
        eff = {'sum': math.fsum(dens), 'min': min(dens), 'max': max(dens), 'mean': math.fsum(dens) / len(dens)}[op]
        eff *= _sden_factor(u)
        ln_site = -(n_surf - 1) * math.log(eff)
        mag += abs(ln_site)
    for rev, m, inc in itertools.product(TSA_REV, TSA_M, TSA_INC):
        if cls == 'Reaction' and inc != 'omitted':
            continue                    # Reaction.get_A has no such option
        kwargs = dict(T=Tc)
        if cls != 'Reaction':
            kwargs['sden_operation'] = op
            if u is not None:
                kwargs['units'] = _units_arg(u)
        if rev != 'omitted':
            kwargs['rev'] = rev
        else:
            ctx.tag('A:tsA:rev-omitted')
        if m != 'omitted':
            kwargs['m'] = m
        else:
            ctx.tag('A:tsA:m-omitted')
        if inc != 'omitted':
            kwargs['include_entropy'] = inc
        else:
            ctx.tag('A:tsA:include_entropy-omitted')
        kwargs['use_q'] = False                 # the entropy route
        is_rev = rev is True
        entropic = kind != 'none' and inc is not False
        if kind == 'none' and cls != 'Reaction':
            # no transition state: rev / m are not part of the question; evaluate the plain call only
            if not (rev == 'omitted' and m == 'omitted'):
                continue
            kwargs.pop('use_q', None)
        sig = dict(part='A', cls=cls, law='entropy route, kinetic-file class', ts=kind,
                   rev='omitted' if rev == 'omitted' else bool(rev),
                   m={0: '0', None: 'None', 'omitted': 'omitted'}.get(m, 'given'),
                   include_entropy='omitted' if inc == 'omitted' else bool(inc))
        try:
            A = _f(_call(ctx, sig, case, rxn.get_A, **kwargs))
            A2 = _f(_call(ctx, sig, case, rxn.get_A, **kwargs))
        except _Failed:
            continue
        ctx.trans()
        if is_rev:
            ctx.tag('A:tsA:rev')
        if m is None:
            ctx.tag('A:tsA:m=None')
        if inc is False:
            ctx.tag('A:tsA:include_entropy=False')
        if not ctx.true('pre-exponential factor > 0', A > 0 and math.isfinite(A), sig, case, A, '> 0'):
            continue
        ctx.tag('A:tsA:second-call')
        ctx.true('the same get_A call repeated on the same reaction gives the same pre-exponential factor',
                 A2 == A, sig, case, A2, A)
        if m == 'omitted' and inc == 'omitted' and kind != 'none':
            # use_q omitted is the partition-function route (q = 1 for NASA species and BEP relations): no closed
            # form in the statement, but the factor is positive
            kq = {k_: v_ for k_, v_ in kwargs.items() if k_ != 'use_q'}
            sq = dict(sig, law='q route positive, kinetic-file class')
            try:
                Aq = _f(_call(ctx, sq, case, rxn.get_A, **kq))
                ctx.tag('A:tsA:use_q-omitted')
                ctx.true('pre-exponential factor > 0', Aq > 0 and math.isfinite(Aq), sq, case, Aq, '> 0')
            except _Failed:
                pass
        base = math.log(kbh * T) if cls == 'Reaction' else math.log(kbh)
        if entropic:
            if m is None:
                mm = math.fsum(nu for _, nu in (ps if is_rev else rs))      # molecularity of the initial state
            elif m == 'omitted':
                mm = 0.0
            else:
                mm = float(m)
            dS = S_t - (S_p if is_rev else S_r)
            ctx.close('A x sigma_eff^(n_surf - 1) = (kB/h) exp(deltaS_act/R + m) by the entropy route: every kind of '
                      'transition state (BEP relation, species), both directions, every m', math.log(A),
                      base + dS + mm + ln_site, sig, case, rtol=1e-10, atol=1e-9, scale=mag)
        elif kind == 'none' or m in (0, 'omitted'):
            # without a transition state / with the entropy of activation switched off: kB/h per unit temperature
            # (include_entropy=False with m != 0: evaluated, positive, no verdict on the value - the option's text
            # speaks of the entropy only)
            ctx.close('A x sigma_eff^(n_surf - 1) = kB/h per unit temperature without a transition state or with the '
                      'entropy of activation switched off', math.log(A), base + ln_site, sig, case,
                      rtol=1e-10, atol=1e-9, scale=mag)


# ================================================================== part 'shared'
# Objects shared between several reactions of one mechanism: one BEP relation that is the transition state of a
# whole reaction family, one species object that takes part in 2-3 reactions, one catalyst site / interface phase
# under several reactions.  A case carries its whole history: build the objects, evaluate every probe on the
# reactions in every order, edit the shared objects in place, evaluate again.  The oracle of every single result is
# the closed form for THAT reaction alone, computed beforehand from the species getters only (the oracle never
# touches a BEP or a reaction, so it cannot refresh whatever they remember).
SH_GROUPS_SM = [[(0, 0), (1, 0)], [(2, 0), (3, 0)], [(0, 0), (0, 1)], [(0, 0), (1, 0), (2, 0)], [(1, 1), (3, 0), (2, 1)]]
SH_GROUPS_EMP = [[(0, 0), (1, 0)], [(0, 0), (1, 1), (0, 1)], [(1, 0), (2, 0)]]        # the first two: ChemkinReaction too
SH_MODES = ['bep-shared', 'bep-own', 'bep-copy', 'bep-dict']
SH_PARAMS = [(0.3, 15.0, 'T'), (0.5, 60.0, 'TP'), (1, 15, 'int'), (0.0, 0.0, 'T')]     # slope, intercept, keyword variant
SH_KWVARS = ['T', 'TP', 'int']
SH_A_GROUPS = [[1, 3, 4], [2, 8, 6], [0, 7, 10], [3, 9], [5, 2]]                      # indices into PATTERNS
PLANNED_TAGS += (['shared:' + m for m in SH_MODES] + ['shared:explicit', 'shared:none', 'shared:K=2', 'shared:K=3',
                 'shared:kw:T', 'shared:kw:TP', 'shared:kw:int', 'shared:getter-major', 'shared:reaction-major',
                 'shared:edit-bep', 'shared:edit-species', 'shared:species-in-2+', 'shared:same-body-both-ways',
                 'shared:A', 'shared:A:site-in-2+'] + ['shared:cls:' + c for c in
                                                       ('Reaction', 'ChemkinReaction', 'SurfaceReaction')])


def _sh_body(fam, b, swap):
    body = (BODIES_SM if fam == 'sm' else BODIES_EMP)[b]
    return (body[1], body[0]) if swap else body


def _shared_cases(tier):
    out = []
    if tier == 'thorough':
        params = [(m, b, v) for m in (0.0, 0.3, 0.5, 1.0, 1) for b in (0.0, 60.0, 15) for v in SH_KWVARS
                  if (v == 'int') == (isinstance(m, int) and isinstance(b, int))]
    else:
        params = SH_PARAMS
    n = 0
    for fam, groups in (('sm', SH_GROUPS_SM), ('emp', SH_GROUPS_EMP)):
        for gi, group in enumerate(groups):
            classes = ['Reaction', 'SurfaceReaction']
            if fam == 'emp' and gi < 2:
                classes.append('ChemkinReaction')
            for cls in classes:
                for mode in SH_MODES:
                    for desc in DESCRIPTORS:
                        if fam == 'emp' and not desc.endswith('_H'):
                            continue
                        for (m, b, v) in params:
                            n += 1
                            out.append(dict(part='shared', sub='ts', cls=cls, fam=fam, group=group, mode=mode, desc=desc,
                                            slope=m, intercept=b, kwvar=v, T=TEMPS[n % 2]))
                # explicit transition-state species / no transition state, shared reactant and product objects
                for mode in ('explicit', 'none'):
                    if mode == 'none' and cls == 'Reaction':
                        continue
                    for v in SH_KWVARS:
                        for T in TEMPS:
                            out.append(dict(part='shared', sub='ts', cls=cls, fam=fam, group=group, mode=mode,
                                            desc=None, slope=None, intercept=None, kwvar=v, T=T))
    # pre-exponential factors of reactions that share sites and species
    for cls in ('ChemkinReaction', 'SurfaceReaction'):
        for gi, group in enumerate(SH_A_GROUPS):
            for si, sden in enumerate([[SDENS[0], SDENS[2]], [SDENS[1], SDENS[0]]]):
                for ts in (False, True):
                    for rot in range(len(OPS)):
                        units = [None] if cls == 'ChemkinReaction' else (
                            A_UNITS if tier == 'thorough' else [A_UNITS[(gi + si + rot) % len(A_UNITS)],
                                                                A_UNITS[(gi + si + rot + 2) % len(A_UNITS)]])
                        for u in units:
                            out.append(dict(part='shared', sub='A', cls=cls, group=group, sden=sden, ts=ts, rot=rot,
                                            units=u, T=TEMPS[(gi + rot) % 2], dS=5.0 if ts else 0.0))
    return out


def _sh_num(x, intvar):
    """integer-typed number on the integer variant whenever the value is an integer"""
    return int(x) if (intvar and float(x).is_integer()) else x


def _sh_edit_species(sp):
    """Edit a species in place so that its enthalpy (and energy) moves; returns what was edited."""
    cls = type(sp).__name__
    if cls == 'StatMech':
        em = sp.elec_model
        if hasattr(em, 'potentialenergy'):
            em.potentialenergy = em.potentialenergy + 0.125
        else:                                           # ConstantMode: independent constants
            for a in ('U', 'H', 'F', 'G'):
                setattr(em, a, getattr(em, a) + 0.125)
        return 'statmech'
    if cls == 'Nasa':
        lo, hi = np.array(sp.a_low, dtype=float), np.array(sp.a_high, dtype=float)
        lo[5] += 1500.0
        hi[5] += 1500.0
        sp.a_low, sp.a_high = lo, hi
        return 'nasa'
    if cls == 'Shomate':
        a = np.array(sp.a, dtype=float)
        a[5] += 12.5
        sp.a = a
        return 'shomate'
    if cls == 'Nasa9':
        for n9 in sp.nasas:
            a = np.array(n9.a, dtype=float)
            a[7] += 1500.0
            n9.a = a
        return 'nasa9'
    raise ValueError(cls)


def _sh_expect(rs, ps, ts, par, kw, sm_all):
    """Closed-form values of one reaction, from species getters only.  par = (slope, intercept, descriptor) or None."""
    from pmutt import constants as c
    T = float(kw['T'])
    RT = c.R('kcal/mol/K') * T

    def state(side, quant):
        t = [(float(nu), R.species_value(sp, quant, kw)) for sp, nu in side]
        return R.combine(t, quant), R.magnitude(t)
    hr, m1 = state(rs, 'HoRT')
    hp, m2 = state(ps, 'HoRT')
    gr, m3 = state(rs, 'GoRT')
    gp, m4 = state(ps, 'GoRT')
    mag = m1 + m2 + m3 + m4 + 1.0
    e = {}
    if par is not None:
        slope, intercept, desc = float(par[0]), float(par[1]), par[2]
        q = 'HoRT' if desc.endswith('_H') else 'EoRT'
        xr, m5 = state(rs, q)
        xp, m6 = state(ps, q)
        mag += m5 + m6 + intercept / RT
        kind = desc.rsplit('_', 1)[0]
        d = {'delta': xp - xr, 'rev_delta': xr - xp, 'reactants': xr, 'products': xp}[kind] * RT
        own = slope * d + intercept                      # barrier in the descriptor's own direction, kcal/mol
        if kind == 'rev_delta':
            ea_f, ea_r = own + (xp - xr) * RT, own
        elif kind == 'delta':
            ea_f, ea_r = own, own - (xp - xr) * RT
        else:
            ea_f, ea_r = own, None                       # the statement says nothing about the reverse relation here
        e['Ea_f'], e['Ea_r'] = ea_f, ea_r
        e['EoRT_f'] = ea_f / RT
        # H and U offsets use the forward barrier; the relation carries no entropy of its own: G_TS = H_TS - S_reactants
        # (documented).  For species with G = H - T S this is the forward barrier again; the pool's ConstantMode
        # species has independent constants, hence the explicit form.
        sr, m9 = state(rs, 'SoR')
        mag += m9
        ts_h = ts_u = ea_f / RT
        ts_g = ea_f / RT + hr - sr - gr
    elif ts is not None:
        ht, m7 = state(ts, 'HoRT')
        gt, m8 = state(ts, 'GoRT')
        mag += m7 + m8
        ts_h, ts_g = ht - hr, gt - gr
        ts_u = (state(ts, 'UoRT')[0] - state(rs, 'UoRT')[0]) if sm_all else None
    else:
        ts_h = ts_g = ts_u = None
    if ts_h is not None:
        e['dH_f'], e['dH_r'] = ts_h, ts_h - (hp - hr)
        if sm_all and ts_u is not None:
            e['dU_f'] = ts_u
    cand_h = [0.0, hp - hr] + ([ts_h] if ts_h is not None else [])
    cand_hr = [0.0, hr - hp] + ([ts_h - (hp - hr)] if ts_h is not None else [])
    cand_g = [0.0, gp - gr] + ([ts_g] if ts_g is not None else [])
    cand_gr = [0.0, gr - gp] + ([ts_g - (gp - gr)] if ts_g is not None else [])
    e['HoRT_act_f'], e['HoRT_act_r'] = max(cand_h), max(cand_hr)
    e['GoRT_act_f'], e['GoRT_act_r'] = max(cand_g), max(cand_gr)
    e['H_act_f'], e['G_act_r'] = e['HoRT_act_f'] * RT, e['GoRT_act_r'] * RT
    return e, mag, RT


# probe name -> (key of the expected value, energy units?, needs a BEP, clamp getter?, call)
def _sh_probes(cls, has_bep, has_ts, sm_all):
    pr = []
    if has_bep:
        pr += [('BEP.get_E_act', 'Ea_f', True, lambda r, b, k: b.get_E_act(units='kcal/mol', reaction=r, **k)),
               ('BEP.get_E_act(rev)', 'Ea_r', True,
                lambda r, b, k: b.get_E_act(units='kcal/mol', reaction=r, rev=True, **k)),
               ('BEP.get_EoRT_act', 'EoRT_f', False, lambda r, b, k: b.get_EoRT_act(reaction=r, rev=False, **k))]
    if has_ts:
        pr += [('get_delta_HoRT(act)', 'dH_f', False, lambda r, b, k: r.get_delta_HoRT(act=True, **k)),
               ('get_delta_HoRT(act,rev)', 'dH_r', False, lambda r, b, k: r.get_delta_HoRT(rev=True, act=True, **k))]
        if sm_all:
            pr.append(('get_delta_UoRT(act)', 'dU_f', False, lambda r, b, k: r.get_delta_UoRT(act=True, **k)))
    if cls != 'Reaction':
        kd = lambda k: {a: v for a, v in k.items() if a != 'T'}                    # noqa
        pr += [('get_HoRT_act', 'HoRT_act_f', False, lambda r, b, k: r.get_HoRT_act(**k)),
               ('get_HoRT_act(rev)', 'HoRT_act_r', False, lambda r, b, k: r.get_HoRT_act(rev=True, **k)),
               ('get_GoRT_act', 'GoRT_act_f', False, lambda r, b, k: r.get_GoRT_act(rev=False, **k)),
               ('get_GoRT_act(rev)', 'GoRT_act_r', False, lambda r, b, k: r.get_GoRT_act(rev=True, **k)),
               ('get_H_act', 'H_act_f', True, lambda r, b, k: r.get_H_act(units='kcal/mol', T=k['T'], **kd(k))),
               ('get_G_act(rev)', 'G_act_r', True,
                lambda r, b, k: r.get_G_act(units='kcal/mol', T=k['T'], rev=True, **kd(k)))]
    return pr


def _same(a, b):
    """Structural equality that also compares the types of numbers and the identity of objects."""
    if isinstance(a, dict) and isinstance(b, dict):
        return list(a) == list(b) and all(_same(a[k], b[k]) for k in a)
    if isinstance(a, (list, tuple)) and isinstance(b, (list, tuple)):
        return len(a) == len(b) and all(_same(x, y) for x, y in zip(a, b))
    if isinstance(a, (int, float, str, bool, type(None))):
        return type(a) is type(b) and a == b
    return a is b


def _check_shared(case, ctx):
    import copy
    if case['sub'] == 'A':
        return _check_shared_A(case, ctx)
    cls, mode, fam = case['cls'], case['mode'], case['fam']
    intvar = case['kwvar'] == 'int'
    T = case['T']
    kwf = {'T': float(T)}                               # the oracle's conditions: plain floats
    kwc = {'T': _sh_num(T, intvar)}                     # what the implementation is called with
    if case['kwvar'] == 'TP':
        kwf['P'] = kwc['P'] = 0.2
    ctx.tag('shared:kw:' + case['kwvar'])
    ctx.tag('shared:cls:' + cls)
    ctx.tag('shared:' + mode)
    ctx.nontrivial(case)
    objs = {}

    def get(k):
        if k not in objs:
            objs[k] = R.build_species(k)
        return objs[k]
    bodies = [_sh_body(fam, b, sw) for b, sw in case['group']]
    K = len(bodies)
    ctx.tag('shared:K=%d' % K)
    if len(set(b for b, _ in case['group'])) < K:
        ctx.tag('shared:same-body-both-ways')
    keys = [k for rs, ps in bodies for k, _ in rs + ps]
    if len(set(keys)) < len(keys):
        ctx.tag('shared:species-in-2+')
    sm_all = all(k in R.STATMECH_KEYS for k in keys)
    sides = [([(get(k), _sh_num(nu, intvar)) for k, nu in rs], [(get(k), _sh_num(nu, intvar)) for k, nu in ps])
             for rs, ps in bodies]
    has_bep = mode.startswith('bep')
    sig0 = dict(part='shared', cls=cls, mode=mode)
    if has_bep:
        sig0['descriptor'] = case['desc']

    def probe(i, name, key, energy, fn, phase, rxns, beps, exp):
        e, mag, RT = exp[i]
        if key not in e:
            return
        sig = dict(sig0, probe=name, phase=phase)
        try:
            v = _f(_call(ctx, sig, case, fn, rxns[i], beps[i], dict(kwc)))
        except _Failed:
            return
        if e[key] is None:
            return                                      # evaluated as part of the history, no verdict on its value
        f = RT if energy else 1.0
        ctx.close('result for a reaction that shares objects with other reactions = closed form for that reaction alone',
                  v, e[key], sig, case, rtol=1e-10, atol=1e-10 * f, scale=mag * f)

    # ---- build: reactions (and their transition states) one after the other, as a mechanism is written
    beps, rxns, held = [], [], []
    par = []
    ts_list, ts_nu = None, None
    tss = []
    for i, (rs, ps) in enumerate(sides):
        kw = dict(reactants=[s_ for s_, _ in rs], reactants_stoich=[n_ for _, n_ in rs],
                  products=[s_ for s_, _ in ps], products_stoich=[n_ for _, n_ in ps])
        if has_bep:
            m_i, b_i = case['slope'], case['intercept']
            if mode == 'bep-shared':
                if i == 0:
                    beps.append(_bep(cls, m_i, b_i, case['desc']))
                    ts_list, ts_nu = [beps[0]], [_sh_num(1.0, intvar)]      # the same list objects for every reaction
                else:
                    beps.append(beps[0])
            else:
                m_i, b_i = (m_i + 0.125 * i, b_i + 2.5 * i) if i else (m_i, b_i)
                if mode == 'bep-own' or i == 0:
                    beps.append(_bep(cls, m_i, b_i, case['desc']))          # same name, other parameters
                else:
                    # a copy of the first relation (which has been evaluated already), edited after creation
                    b0 = beps[0]
                    nb = copy.deepcopy(b0) if mode == 'bep-copy' else type(b0).from_dict(b0.to_dict())
                    ctx.true('a copy of a BEP relation is another object of the same class',
                             nb is not b0 and type(nb) is type(b0), dict(sig0, phase='copy'), case)
                    nb.slope, nb.intercept = m_i, b_i
                    beps.append(nb)
                ts_list, ts_nu = [beps[i]], [_sh_num(1.0, intvar)]
            par.append((m_i, b_i, case['desc']))
            kw.update(transition_state=ts_list, transition_state_stoich=ts_nu)
            tss.append(None)
        elif mode == 'explicit':
            tsk = 'TSM' if fam == 'sm' else 'TSN'
            tsl = [(get(tsk), _sh_num([1.0, 0.5, 2.0][i], intvar))]          # one transition-state object, shared
            kw.update(transition_state=[tsl[0][0]], transition_state_stoich=[tsl[0][1]])
            beps.append(None)
            par.append(None)
            tss.append(tsl)
        else:
            beps.append(None)
            par.append(None)
            tss.append(None)
        held.append((kw, copy.copy(kw), {k_: list(v_) for k_, v_ in kw.items()}))
        rxns.append(_make(cls, keys, **kw))
        ctx.trace()
        if has_bep and i == 0 and mode in ('bep-copy', 'bep-dict'):
            exp0 = [_sh_expect(sides[0][0], sides[0][1], None, par[0], kwf, sm_all)]
            for name, key, energy, fn in _sh_probes(cls, True, True, sm_all)[:2]:
                probe(0, name, key, energy, fn, 'before-copy', rxns, beps, exp0)

    def expected():
        return [_sh_expect(sides[i][0], sides[i][1], tss[i], par[i], kwf, sm_all) for i in range(K)]
    exp = expected()
    probes = _sh_probes(cls, has_bep, has_bep or mode == 'explicit', sm_all)
    snap = [(b.slope, b.intercept, b.descriptor) if b is not None else None for b in beps]
    perms = list(itertools.permutations(range(K)))
    # ---- every order, getter-major: one quantity for all reactions, then the next quantity (a mechanism writer)
    for order in perms:
        for name, key, energy, fn in probes:
            for i in order:
                probe(i, name, key, energy, fn, 'getter-major', rxns, beps, exp)
        ctx.trans(K)
    ctx.tag('shared:getter-major')
    # ---- reaction-major: every quantity of one reaction, then the next reaction
    for order in (perms if ctx.tier == 'thorough' else (perms[0], perms[-1])):
        for i in order:
            for name, key, energy, fn in probes:
                probe(i, name, key, energy, fn, 'reaction-major', rxns, beps, exp)
        ctx.trans(K)
    ctx.tag('shared:reaction-major')
    # ---- the caller's data is left alone
    now = [(b.slope, b.intercept, b.descriptor) if b is not None else None for b in beps]
    ok = _same(now, snap) and all(_same(kw_, cp) and all(_same(list(kw_[k_]), ls[k_]) for k_ in ls)
                                  for kw_, cp, ls in held)
    ctx.true("construction and evaluation leave the caller's species / coefficient lists and the BEP parameters as "
             'they were', ok, dict(sig0, phase='callers-data'), case, observed=repr(now)[:200], expected=repr(snap)[:200])
    # ---- the shared objects edited in place: answers for the new content
    if has_bep:
        fam_d = [d_ for d_ in DESCRIPTORS if d_.endswith(case['desc'][-2:])]
        for i, b in enumerate(beps):
            if mode == 'bep-shared' and i:
                par[i] = par[0]
                continue
            nd = fam_d[(fam_d.index(b.descriptor) + 1 + i) % len(fam_d)]
            b.slope, b.intercept, b.descriptor = b.slope + 0.125, b.intercept + 2.5, nd
            par[i] = (b.slope, b.intercept, nd)
        exp = expected()
        for order in (perms[-1],):
            for name, key, energy, fn in probes:
                for i in order:
                    probe(i, name, key, energy, fn, 'edit-bep', rxns, beps, exp)
        ctx.tag('shared:edit-bep')
        ctx.trans(K)
    sp0 = sides[0][0][0][0]
    before = R.species_value(sp0, 'HoRT', kwf)
    _sh_edit_species(sp0)
    if not abs(R.species_value(sp0, 'HoRT', kwf) - before) > 1e-3:
        raise RuntimeError('harness: the in-place edit did not move the species enthalpy')
    exp = expected()
    for name, key, energy, fn in probes:
        for i in perms[0]:
            probe(i, name, key, energy, fn, 'edit-species', rxns, beps, exp)
    ctx.tag('shared:edit-species')
    ctx.trans(K)


def _A_build_shared(case):
    """The group's reactions on ONE set of objects: one species per role, one site / phase object per site."""
    cls = case['cls']
    sa, sb = case['sden']
    roles = {}
    if cls == 'ChemkinReaction':
        from pmutt.chemkin import CatSite
        sites = {'A': CatSite(name='siteA', site_density=sa, density=21.4, bulk_specie='BULK'),
                 'B': CatSite(name='siteB', site_density=sb, density=12.0, bulk_specie='BULK')}
        roles['gas'] = _nasa('G0', 0.1, 3.0, phase='G')
        roles['bulk'] = _nasa('BULK', 0.0, 0.0, phase='S', cat_site=sites['A'])
        roles['A'] = _nasa('A0', -0.2, 1.0, phase='S', cat_site=sites['A'])
        roles['B'] = _nasa('B0', -0.2, 1.0, phase='S', cat_site=sites['B'])
        prod = _nasa('PR', -0.3, 2.0, phase='S', cat_site=sites['A'])
        mk_ts = lambda n, S: _nasa(n, 0.4, S, phase='S', cat_site=sites['A'])                     # noqa
        tss = []
    else:
        from pmutt.omkm.phase import InteractingInterface, StoichSolid, IdealGas
        roles['gas'] = _nasa('G0', 0.1, 3.0, phase='G')
        roles['bulk'] = _nasa('BULK', 0.0, 0.0, phase='S')
        roles['A'] = _nasa('A0', -0.2, 1.0, phase='S')
        roles['B'] = _nasa('B0', -0.2, 1.0, phase='S')
        prod = _nasa('PR', -0.3, 2.0, phase='S')
        tss = []
        mk_ts = lambda n, S: tss.append(_nasa(n, 0.4, S, phase='S')) or tss[-1]                      # noqa
    rx_kw = []
    for j, pi in enumerate(case['group']):
        pat = PATTERNS[pi]
        kw = dict(reactants=[roles[r] for r, _ in pat], reactants_stoich=[nu for _, nu in pat],
                  products=[prod], products_stoich=[1.0])
        if case['ts']:
            S = case['dS'] + sum(nu * (3.0 if r == 'gas' else 0.0 if r == 'bulk' else 1.0) for r, nu in pat)
            kw.update(transition_state=[mk_ts('TS%d' % j, S)], transition_state_stoich=[1.0])
        rx_kw.append(kw)
    if cls != 'ChemkinReaction':
        IdealGas(name='gasphase', species=[roles['gas']])
        StoichSolid(name='bulkphase', species=[roles['bulk']])
        InteractingInterface(name='ifaceA', species=[roles['A'], prod] + tss, site_density=sa)
        InteractingInterface(name='ifaceB', species=[roles['B']], site_density=sb)
    return [_cls(cls)(**kw) for kw in rx_kw]


def _check_shared_A(case, ctx):
    from pmutt import constants as c
    kbh = c.kb('J/K') / c.h('J s')
    cls, u, T = case['cls'], case['units'], case['T']
    sa, sb = case['sden']
    ctx.tag('shared:A')
    ctx.tag('shared:cls:' + cls)
    ctx.nontrivial(case)
    rxns = _A_build_shared(case)
    ctx.trace(len(rxns))
    K = len(rxns)
    ctx.tag('shared:K=%d' % K)
    pats = [PATTERNS[pi] for pi in case['group']]
    if sum(1 for p_ in pats if any(r == 'A' for r, _ in p_)) > 1:
        ctx.tag('shared:A:site-in-2+')
    dS = case['dS'] if case['ts'] else 0.0
    ops = OPS[case['rot']:] + OPS[:case['rot']]

    def expected(pat, op):
        dens = []
        for r, nu in pat:
            if r in ('A', 'B'):
                dens.extend([sa if r == 'A' else sb] * int(nu))
        n_surf = sum(nu for r, nu in pat if r in ('A', 'B'))
        if not dens:
            return None if cls == 'SurfaceReaction' else (math.log(kbh) + dS, 40.0, n_surf)
        eff = {'sum': math.fsum(dens), 'min': min(dens), 'max': max(dens), 'mean': math.fsum(dens) / len(dens)}[op]
        eff *= _sden_factor(u)
        return math.log(kbh) + dS - (n_surf - 1) * math.log(eff), 40.0 + abs(n_surf - 1) * abs(math.log(eff)), n_surf
    for op in ops:
        kwargs = dict(sden_operation=op, T=T)
        if u is not None:
            kwargs['units'] = _units_arg(u)
        if case['ts']:
            kwargs['use_q'] = False
        for order in itertools.permutations(range(K)):
            for i in order:
                e = expected(pats[i], op)
                sig = dict(part='shared', cls=cls, mode='A', op=op, phase='order')
                if e is None:
                    try:
                        rxns[i].get_A(**kwargs)
                    except ValueError:
                        ctx.refuse('SurfaceReaction.get_A without any surface reactant (documented ValueError)')
                        continue
                    ctx.fail('SurfaceReaction.get_A without a site raises ValueError', sig, case, 'no error', 'ValueError')
                    continue
                try:
                    A = _f(_call(ctx, sig, case, rxns[i].get_A, **kwargs))
                except _Failed:
                    continue
                if not (A > 0 and math.isfinite(A)):
                    ctx.fail('pre-exponential factor > 0', sig, case, A, '> 0')
                    continue
                ctx.close('pre-exponential factor of a reaction that shares species and sites with other reactions = '
                          'closed form for that reaction alone', math.log(A), e[0], dict(sig, n_surf=int(e[2])), case,
                          rtol=1e-10, atol=1e-9, scale=e[1])
            ctx.trans(K)


# ================================================================== driver
def _enumerate(tier):
    return _clamp_cases(tier) + _bep_cases(tier) + _A_cases(tier) + _shared_cases(tier)


N_SHARDS = {'quick': 32, 'thorough': 64}


def bounds(tier):
    cl, be, aa, sh = _clamp_cases(tier), _bep_cases(tier), _A_cases(tier), _shared_cases(tier)
    ev, sr, sl, ic = _lat(tier)
    return dict(H_eV=ev, S_over_R=sr, T=TEMPS, slopes=sl, intercepts_kcal=ic, descriptors=DESCRIPTORS,
                site_densities=SDENS, operations=OPS, lambdas=LAMBDAS, A_units=A_UNITS,
                reactant_patterns=len(PATTERNS), clamp_cases=len(cl), bep_cases=len(be), A_cases=len(aa),
                A_entropy_route_kinetic_class_cases=len(_tsA_cases(tier)),
                A_entropy_route_options=dict(ts=TSA_TS, rev=[str(x) for x in TSA_REV], m=[str(x) for x in TSA_M],
                                             include_entropy=[str(x) for x in TSA_INC], patterns=len(TSA_PATTERNS)),
                shared_cases=len(sh), shared_modes=SH_MODES + ['explicit', 'none', 'A'],
                shared_groups=dict(statmech=SH_GROUPS_SM, empirical=SH_GROUPS_EMP, A_patterns=SH_A_GROUPS),
                shared_orders='every permutation of the 2-3 reactions (getter-major; reaction-major: ' +
                ('every permutation' if tier == 'thorough' else 'first and last permutation') + ')',
                shared_params=(SH_PARAMS if tier == 'quick' else 'slopes x intercepts x keyword variants'),
                full_product=True)


def shards(tier):
    n = N_SHARDS[tier]
    return [dict(tier=tier, k=k, n=n) for k in range(n)]


def _sig(case):
    if case['part'] == 'shared':
        return {'part': 'shared', 'cls': case['cls'], 'mode': case.get('mode', 'A')}
    return {'part': case['part'], 'cls': case['cls']}


def check_case(case, ctx):
    try:
        if case['part'] == 'clamp':
            _check_clamp(case, ctx)
        elif case['part'] == 'bep':
            _check_bep(case, ctx)
        elif case['part'] == 'shared':
            _check_shared(case, ctx)
        else:
            _check_A(case, ctx)
    except _Refused as e:
        ctx.refuse(str(e))


def run_shard(shard, ctx):
    cases = _enumerate(shard['tier'])
    for i, case in enumerate(cases):
        if i % shard['n'] != shard['k']:
            continue
        ctx.state(case)
        ctx.trans()
        if i % 1499 == shard['k']:
            ctx.sample(case, limit=1)
        ctx.run_case(check_case, case, _sig(case))


LEVEL_TEXT = ('Full-product enumeration, on the real ChemkinReaction / SurfaceReaction / Reaction / BEP classes, of '
              '(a) energy landscapes with exactly set H and S x transition state none/explicit/BEP x direction for the '
              'four clamped activation getters, (b) the 8 BEP descriptors x slope x intercept x reaction bodies x '
              'direction for the barrier identities, (c) reactant patterns with 0-3 surface reactants x site densities '
              'x operation x units x lambda for the pre-exponential factor, (d) histories on 2-3 reactions that share a '
              'BEP relation / transition-state species / reactant and product species / sites: every probe in every '
              'order of the reactions, in-place edits of the shared objects, each result against the closed form of '
              'that reaction alone; closed-form oracles built from the species getters.')
LEVEL_NOTE = ('quick: landscape lattice 5^3 x 3^2, slopes {0,.3,.5,1}, intercepts {0,15,60} kcal/mol, BEP-transition-state '
              'clamps at one temperature, unit systems as a pairwise cover; thorough: lattice 9^3 x 5^2, 6 slopes x 5 '
              'intercepts, everything at both temperatures, all unit systems; site densities {1e-11,2.5e-9,1e-8} mol/cm2. '
              'Shared-object histories: 8 groups of 2-3 bodies; quick 4 (slope, intercept, keyword variant) triples and '
              'reaction-major order for the first and last permutation only; thorough the product and every permutation.')
TECHNIQUE = 'full-product enumeration of small option sets on the implementation, closed-form oracle'
