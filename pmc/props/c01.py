"""C01 - statistical-mechanical species are thermodynamically self-consistent.

Shape C (lattice walk with edge laws) for every mode object of the alphabet, Shape B
(deviation-bounded / full product) for species assembled from the modes, Shape A (setter
histories) for cached attributes, and a full enumeration of the G2 set under rigid motions and
atom permutations for the geometry-derived parameters.
"""
import inspect
import itertools
import math
import warnings

import numpy as np

from pmc.engine.quad import gl_nodes
from pmc.ref import statmech as ref

ID = 'C01'
RULE = ('(i) every mode object of the alphabet on the full T(xP) lattice: identities in every state, '
        'Gauss-Legendre edge laws on every edge, textbook closed form; (ii) species = all slot '
        'configurations within 2 deviations of the water-like ideal gas (quick) / full product '
        '(thorough): verbose additivity, identities, pressure law, options; (iii) all setter histories of '
        'length <= 2; (iv) all G2 molecules x rigid motions x permutations. Non-trivial = differs from the '
        'default configuration / identity motion.')
ASSUMPTIONS = ['T, P and mode parameters are taken from finite lattices placed in every asymptotic regime '
               '(theta/T << 1, ~ 1, >> 1); nothing is claimed off the lattice',
               "reference closed forms share pMuTT's physical constants (constant accuracy is C12)",
               'Einstein/Debye partition functions are compared only through F = U - TS (two normalisations '
               'exist in the literature)']
EXPLANATION = 'stateless exhaustive exploration of the real mode/species classes on finite lattices'
LEVEL_TEXT = ('Exhaustive lattice walk on the real classes: thermodynamic identities in every lattice state, '
              'integral edge laws (16-pt Gauss-Legendre x 4 panels) on every lattice edge, textbook closed '
              'forms per mode, verbose additivity and option invariance over all species configurations '
              'within the deviation bound, all setter histories up to length 2, and every G2 molecule under '
              '108 rigid motions and a generating set of atom permutations.')
LEVEL_NOTE = ('Lattice, not continuum: verdict holds on the stated temperature/pressure/parameter lattices and '
              'configuration bound. Known genuine defects (Debye integrand, monatomic rotor q) are listed in '
              'known_findings.json.')
TECHNIQUE = 'bounded exhaustive lattice/product/history enumeration on the implementation with reference-model oracles'

TL = [50., 65., 85., 110., 150., 200., 298.15, 400., 600., 900., 1300., 1900., 2800., 3700., 5000.]
PL = [1e-4, 1e-2, 1., 30., 1e3]
GET = ['CvoR', 'CpoR', 'UoRT', 'HoRT', 'SoR', 'FoRT', 'GoRT']
REFKEY = dict(CvoR='Cv', CpoR='Cp', UoRT='U', HoRT='H', SoR='S', FoRT='F', GoRT='G', q='q', ZPE='ZPE')

W_WATER = [3657.05, 1594.75, 3755.93]
W_MIX = [10., 35., 120., 450., 800., 1200., 2100., 3300., 4500.]
W_IMAG = [-200., -50., 10., 450., 4500.]

PLANNED_TAGS = ['mode:FreeTrans', 'mode:HarmonicVib', 'mode:QRRHOVib', 'mode:EinsteinVib', 'mode:DebyeVib',
                'mode:RigidRotor', 'mode:GroundStateElec', 'mode:LSR', 'mode:Empty', 'mode:EmptyNucl',
                'vib:imaginary-dropped', 'vib:imaginary-substituted', 'rot:monatomic', 'rot:linear',
                'rot:nonlinear', 'species:refs', 'species:misc', 'species:no-trans', 'setter:history',
                'geom:monatomic', 'geom:linear', 'geom:nonlinear', 'geom:perm-all', 'geom:perm-generators',
                'label:point-group', 'option:missing-getter', 'alias:shared-input']


# ------------------------------------------------------------------ alphabets
def _modes_alphabet():
    out = [dict(k='Empty'), dict(k='EmptyNucl')]
    for n in (1, 2, 3):
        for M in (1.008, 28.01, 500.):
            out.append(dict(k='FreeTrans', n=n, M=M))
    out.append(dict(k='HarmonicVib', w=[], sub=None))
    for w in ([10.], [450.], [4500.], W_WATER, W_MIX):
        out.append(dict(k='HarmonicVib', w=w, sub=None))
    out.append(dict(k='HarmonicVib', w=W_IMAG, sub=None))
    out.append(dict(k='HarmonicVib', w=W_IMAG, sub=50.))
    for w, sub in ((W_WATER, None), (W_MIX, None), (W_IMAG, None), (W_IMAG, 50.)):
        for Bav in (1e-44, 1e-46):
            for v0 in (100., 50.):
                for alpha in (4, 2):
                    out.append(dict(k='QRRHOVib', w=w, sub=sub, Bav=Bav, v0=v0, alpha=alpha))
    for th in (50., 400., 2000.):
        for u in (0., -0.5):
            out.append(dict(k='EinsteinVib', th=th, u=u))
            out.append(dict(k='DebyeVib', th=th, u=u))
    out.append(dict(k='RigidRotor', geom='monatomic', sigma=1, thr=[0.]))
    for sigma in (1, 2, 12):
        for th in (0.01, 2.1, 100.):
            out.append(dict(k='RigidRotor', geom='linear', sigma=sigma, thr=[th]))
        for thr in itertools.combinations_with_replacement((0.01, 9., 100.), 3):
            out.append(dict(k='RigidRotor', geom='nonlinear', sigma=sigma, thr=list(thr)))
    for E in (0., -14.2):
        for spin in (0., 0.5, 1., 1.5):
            out.append(dict(k='GroundStateElec', E=E, spin=spin))
    # the same kinds of objects with integer-typed parameters (Python ints end up in integer-dtype arrays)
    out += [dict(k='HarmonicVib', w=[3657, 1595, 3756], sub=None),
            dict(k='HarmonicVib', w=[-200, -50, 10, 450, 4500], sub=50),
            dict(k='QRRHOVib', w=[3657, 1595, 3756], sub=None, Bav=1e-44, v0=100, alpha=4),
            dict(k='EinsteinVib', th=400, u=0), dict(k='DebyeVib', th=215, u=0),
            dict(k='RigidRotor', geom='linear', sigma=2, thr=[2]),
            dict(k='RigidRotor', geom='nonlinear', sigma=2, thr=[9, 9, 100]),
            dict(k='FreeTrans', n=3, M=28), dict(k='GroundStateElec', E=-14, spin=1)]
    out.append(dict(k='LSR', slope=0.3, intercept=2.5, reaction=-40., surf=-10., gas=5.))
    out.append(dict(k='LSR', slope=1.0, intercept=0., reaction=12., surf=0., gas=0.))
    out.append(dict(k='LSR', slope=0.0, intercept=-7., reaction=12., surf=3., gas=-2.))
    return out


SLOTS = ['trans', 'vib', 'rot', 'elec', 'nucl', 'misc', 'refs']
CM1 = dict(k='ConstantMode', q=2.5, Cv=1e-4, Cp=2e-4, U=0.1, H=0.15, S=3e-4, F=-0.2, G=-0.25)
CM2 = dict(k='ConstantMode', q=0.5, Cv=3e-5, Cp=0., U=-1.0, H=-1.0, S=1e-5, F=0.3, G=0.7)
SPECIES_ALPHA = dict(
    trans=[dict(k='FreeTrans', n=3, M=18.015), dict(k='Empty'), dict(k='FreeTrans', n=1, M=18.015),
           dict(k='FreeTrans', n=2, M=18.015), dict(k='FreeTrans', n=3, M=1.008),
           dict(k='FreeTrans', n=3, M=500.)],
    vib=[dict(k='HarmonicVib', w=W_WATER, sub=None), dict(k='Empty'), dict(k='HarmonicVib', w=[], sub=None),
         dict(k='HarmonicVib', w=[10.], sub=None), dict(k='HarmonicVib', w=W_MIX, sub=None),
         dict(k='HarmonicVib', w=W_IMAG, sub=None), dict(k='HarmonicVib', w=W_IMAG, sub=50.),
         dict(k='QRRHOVib', w=W_WATER, sub=None, Bav=1e-44, v0=100., alpha=4),
         dict(k='QRRHOVib', w=W_MIX, sub=None, Bav=1e-46, v0=50., alpha=2),
         dict(k='EinsteinVib', th=400., u=-0.5), dict(k='DebyeVib', th=400., u=-0.5),
         dict(k='EinsteinVib', th=2000., u=0.)],
    rot=[dict(k='RigidRotor', geom='nonlinear', sigma=2, thr=[40.1, 20.9, 13.4]), dict(k='Empty'),
         dict(k='RigidRotor', geom='monatomic', sigma=1, thr=[0.]),
         dict(k='RigidRotor', geom='linear', sigma=1, thr=[2.1]),
         dict(k='RigidRotor', geom='linear', sigma=2, thr=[100.]),
         dict(k='RigidRotor', geom='nonlinear', sigma=12, thr=[0.01, 9., 100.])],
    elec=[dict(k='GroundStateElec', E=-14.2, spin=0.), dict(k='Empty'), dict(k='GroundStateElec', E=0., spin=0.5),
          dict(k='GroundStateElec', E=-14.2, spin=1.5),
          dict(k='LSR', slope=0.3, intercept=2.5, reaction=-40., surf=-10., gas=5.)],
    nucl=[dict(k='Empty'), dict(k='EmptyNucl')],
    misc=[None, [CM1], [CM1, CM2], []],
    refs=[None, dict(offset={'H': 12.5, 'O': -33.25}, T_ref=298.15)],
)
ELEMENTS = {'H': 2, 'O': 1}
ST = [150., 298.15, 1300.]
SP = [1., 30.]


def bounds(tier):
    al = {k: len(v) for k, v in SPECIES_ALPHA.items()}
    return dict(T_lattice=TL, P_lattice=PL, mode_objects=len(_modes_alphabet()), species_slot_alphabet=al,
                species_deviation_bound=2 if tier == 'quick' else 'full product',
                species_T=ST, species_P=SP, setter_history_depth=2,
                g2_molecules=162 if tier == 'thorough' else 'all 162, reduced motion set',
                rigid_motions='24 cube rotations + 12 generic, x3 translations')


# --------------------------------------------------------------------- builders
def build_mode(d):
    from pmutt.statmech import EmptyMode, ConstantMode
    from pmutt.statmech.trans import FreeTrans
    from pmutt.statmech.vib import HarmonicVib, QRRHOVib, EinsteinVib, DebyeVib
    from pmutt.statmech.rot import RigidRotor
    from pmutt.statmech.elec import GroundStateElec
    from pmutt.statmech.nucl import EmptyNucl
    k = d['k']
    if k == 'Empty':
        return EmptyMode()
    if k == 'EmptyNucl':
        return EmptyNucl()
    if k == 'FreeTrans':
        return FreeTrans(n_degrees=d['n'], molecular_weight=d['M'])
    if k == 'HarmonicVib':
        return HarmonicVib(vib_wavenumbers=list(d['w']), imaginary_substitute=d.get('sub'))
    if k == 'QRRHOVib':
        return QRRHOVib(vib_wavenumbers=list(d['w']), Bav=d['Bav'], v0=d['v0'], alpha=d['alpha'],
                        imaginary_substitute=d.get('sub'))
    if k == 'EinsteinVib':
        return EinsteinVib(einstein_temperature=d['th'], interaction_energy=d['u'])
    if k == 'DebyeVib':
        return DebyeVib(debye_temperature=d['th'], interaction_energy=d['u'])
    if k == 'RigidRotor':
        return RigidRotor(symmetrynumber=d['sigma'], rot_temperatures=list(d['thr']), geometry=d['geom'])
    if k == 'GroundStateElec':
        return GroundStateElec(potentialenergy=d['E'], spin=d['spin'])
    if k == 'LSR':
        from pmutt.statmech.lsr import LSR
        return LSR(slope=d['slope'], intercept=d['intercept'], reaction=d['reaction'],
                   surf_species=d['surf'], gas_species=d['gas'])
    if k == 'ConstantMode':
        return ConstantMode(**{x: d[x] for x in ('q', 'Cv', 'Cp', 'U', 'H', 'S', 'F', 'G')})
    raise ValueError(k)


def ref_mode(d, T, P):
    """Textbook values for mode descriptor d at (T, P); None where no closed form is claimed."""
    from pmutt import constants as c
    k = d['k']
    if k in ('Empty', 'EmptyNucl'):
        return dict(q=1., U=0., H=0., Cv=0., Cp=0., S=0., F=0., G=0.)
    if k == 'FreeTrans':
        return ref.trans(d['n'], d['M'], T, P)
    if k == 'HarmonicVib':
        return ref.harmonic(d['w'], T, d.get('sub'))
    if k == 'QRRHOVib':
        return ref.qrrho(d['w'], T, d['Bav'], d['v0'], d['alpha'], d.get('sub'))
    if k == 'EinsteinVib':
        return ref.einstein(d['th'], d['u'], T)
    if k == 'DebyeVib':
        return ref.debye(d['th'], d['u'], T)
    if k == 'RigidRotor':
        return ref.rotor(d['geom'], d['sigma'], d['thr'], T)
    if k == 'GroundStateElec':
        return ref.ground_state(d['E'], d['spin'], T)
    if k == 'LSR':
        # a float energy X (kcal/mol) becomes a constant species reporting X*f, f = 1 up to the
        # mutual rounding of pMuTT's unit tables (that rounding is C12's business, not C01's)
        f = c.convert_unit(initial='kcal/mol', final='eV/molecule') * c.R('kcal/mol/K') / c.R('eV/K')
        E = d['slope'] * d['reaction'] * f + d['intercept'] + d['surf'] * f + d['gas'] * f     # kcal/mol
        U = E / (c.R('kcal/mol/K') * T)
        return dict(U=U, H=U, Cv=0., Cp=0., S=0., F=U, G=U)
    if k == 'ConstantMode':
        R = c.R('eV/K')
        return dict(q=d['q'], Cv=d['Cv'] / R, Cp=d['Cp'] / R, U=d['U'] / R / T, H=d['H'] / R / T,
                    S=d['S'] / R, F=d['F'] / R / T, G=d['G'] / R / T)
    raise ValueError(k)


def call(obj, name, **kw):
    """Call obj.name passing only the keyword arguments it accepts (independent of pMuTT's helper)."""
    fn = getattr(obj, name)
    sig = inspect.signature(fn)
    if any(p.kind == p.VAR_KEYWORD for p in sig.parameters.values()):
        return fn(**kw)
    return fn(**{k: v for k, v in kw.items() if k in sig.parameters})


def _f(x):
    a = np.asarray(x, dtype=float)
    if a.size != 1:
        raise ValueError('expected a scalar, got shape %r' % (a.shape,))
    return float(a.reshape(()))


# ---------------------------------------------------------------- (i) per mode
def check_mode(case, ctx):
    d = case['mode']
    k = d['k']
    sig0 = {'cls': k}
    if k == 'RigidRotor':
        sig0['geom'] = d['geom']
        ctx.tag('rot:' + d['geom'])
    if k in ('HarmonicVib', 'QRRHOVib') and any(v <= 0 for v in d['w']):
        ctx.tag('vib:imaginary-substituted' if d.get('sub') else 'vib:imaginary-dropped')
    ctx.tag('mode:' + k)
    m = build_mode(d)
    ctx.trace()
    uses_P = (k == 'FreeTrans')
    Ps = PL if uses_P else [1.0]
    loose = (k == 'DebyeVib')
    tol_cf = 1e-7 if loose else 1e-9
    tol_edge = 1e-6 if loose else 1e-8
    has_q = k not in ('QRRHOVib', 'LSR')
    dCp = 1.0 if uses_P else 0.0
    vals = {}
    for P in Ps:
        for T in TL:
            ctx.state(('mode', d, T, P))
            v = {g: _f(call(m, 'get_' + g, T=T, P=P)) for g in GET}
            ctx.evals(len(GET))
            if has_q:
                v['q'] = _f(call(m, 'get_q', T=T, P=P))
            if hasattr(m, 'get_ZPE'):
                v['ZPE'] = _f(m.get_ZPE())
            vals[(T, P)] = v
            s = abs(v['HoRT']) + abs(v['SoR']) + abs(v['UoRT']) + 1.0
            ctx.close('mode: G = H - S', v['GoRT'], v['HoRT'] - v['SoR'], dict(sig0), case, rtol=1e-10, scale=s)
            ctx.close('mode: F = U - S', v['FoRT'], v['UoRT'] - v['SoR'], dict(sig0), case, rtol=1e-10, scale=s)
            ctx.close('mode: Cp - Cv (1 for ideal-gas translation, else 0)', v['CpoR'] - v['CvoR'], dCp,
                      dict(sig0), case, rtol=1e-10, scale=abs(v['CpoR']) + 1.0)
            ctx.close('mode: H - U (RT for ideal-gas translation, else 0)', v['HoRT'] - v['UoRT'], dCp,
                      dict(sig0), case, rtol=1e-10, scale=abs(v['HoRT']) + 1.0)
            r = ref_mode(d, T, P)
            for g, val in v.items():
                rk = REFKEY[g]
                if rk not in r:
                    continue
                sg = dict(sig0, quantity=g)
                if k == 'DebyeVib' and g in ('UoRT', 'HoRT', 'SoR'):
                    # characterise the discrepancy so that the known finding stays specific
                    from pmc.engine.core import close as _close
                    extra = 9. * d['th'] / (4. * T)
                    sg['deviation'] = ('plus 9theta/(4T)' if _close(val, r[rk] + extra, rtol=tol_cf,
                                                                  scale=abs(r[rk]) + extra + 1.0)[0] else 'other')
                if k == 'RigidRotor' and d['geom'] == 'monatomic' and g == 'q':
                    sg['deviation'] = 'returns 0' if val == 0.0 else 'other'
                ctx.close('mode: textbook closed form', val, r[rk], sg, case, rtol=tol_cf,
                          scale=abs(r[rk]) + (1.0 if g != 'q' else 0.0) + 1e-300)
    # edge laws along T at every P
    for P in Ps:
        for T1, T2 in zip(TL[:-1], TL[1:]):
            ctx.trans()
            x, w = gl_nodes(T1, T2, 4)
            cv = np.array([_f(call(m, 'get_CvoR', T=t, P=P)) for t in x])
            cp = np.array([_f(call(m, 'get_CpoR', T=t, P=P)) for t in x])
            ctx.evals(2 * len(x))
            a, b = vals[(T1, P)], vals[(T2, P)]
            sc = (T2 - T1) * (1.0 + float(np.max(np.abs(cp))))
            ctx.close('mode: dU/dT = Cv (edge integral)', T2 * b['UoRT'] - T1 * a['UoRT'], float(np.dot(w, cv)),
                      dict(sig0), case, rtol=tol_edge, atol=1e-10, scale=sc)
            ctx.close('mode: dH/dT = Cp (edge integral)', T2 * b['HoRT'] - T1 * a['HoRT'], float(np.dot(w, cp)),
                      dict(sig0), case, rtol=tol_edge, atol=1e-10, scale=sc)
            sgS = dict(sig0)
            if k == 'DebyeVib':
                from pmc.engine.core import close as _close
                extra = 9. * d['th'] / 4. * (1. / T2 - 1. / T1)
                sgS['deviation'] = ('plus 9theta/(4T)' if _close(b['SoR'] - a['SoR'], float(np.dot(w, cp / x)) + extra,
                                                              rtol=tol_edge, atol=1e-10, scale=abs(extra) + 1.0)[0]
                                    else 'other')
            ctx.close('mode: dS/dT = Cp/T (edge integral)', b['SoR'] - a['SoR'], float(np.dot(w, cp / x)),
                      sgS, case, rtol=tol_edge, atol=1e-10,
                      scale=math.log(T2 / T1) * (1.0 + float(np.max(np.abs(cp)))))
    # pressure law (every T, every adjacent pressure pair) - translation only
    if uses_P:
        for T in TL:
            for P1, P2 in zip(PL[:-1], PL[1:]):
                ctx.trans()
                ctx.close('mode: S(P2) - S(P1) = -ln(P2/P1)', vals[(T, P2)]['SoR'] - vals[(T, P1)]['SoR'],
                          -math.log(P2 / P1), dict(sig0), case, rtol=1e-10, scale=abs(vals[(T, P1)]['SoR']) + 10.)
    # integer-typed T and P give the same values as the equal floats; asking twice gives the same answer
    for Ti, Pi in ((400, 1), (2800, 30)):
        for g in GET + (['q'] if has_q else []):
            a = _f(call(m, 'get_' + g, T=Ti, P=Pi))
            b = _f(call(m, 'get_' + g, T=float(Ti), P=float(Pi)))
            c2 = _f(call(m, 'get_' + g, T=Ti, P=Pi))
            ctx.evals(3)
            ctx.close('mode: integer-typed T and P give the values of the equal floats; repeated call agrees',
                      [a, c2], [b, b], dict(sig0, quantity=g), case, rtol=1e-13, atol=1e-300)
    if k == 'HarmonicVib':
        for T in (110., 600.):
            r = ref.harmonic(d['w'], T, d.get('sub'), include_ZPE=False)
            ctx.close('mode: textbook closed form', _f(m.get_q(T=T, include_ZPE=False)), r['q'],
                      dict(sig0, quantity='q(include_ZPE=False)'), case, rtol=1e-9)
    ctx.nontrivial(('mode', d))


# --------------------------------------------------------------- (ii) species
def build_species(cfg, with_refs=None):
    from pmutt.statmech import StatMech
    from pmutt.empirical.references import References
    refs = cfg['refs'] if with_refs is None else with_refs
    robj = None
    if refs:
        robj = References(offset=dict(refs['offset']), references=None, descriptor='elements', T_ref=refs['T_ref'])
    misc = None if cfg['misc'] is None else [build_mode(x) for x in cfg['misc']]
    return StatMech(name='sp', trans_model=build_mode(cfg['trans']), vib_model=build_mode(cfg['vib']),
                    rot_model=build_mode(cfg['rot']), elec_model=build_mode(cfg['elec']),
                    nucl_model=build_mode(cfg['nucl']), misc_models=misc, elements=dict(ELEMENTS),
                    references=robj)


def _sp_sig(cfg):
    return {'level': 'species', 'vib': cfg['vib']['k'], 'trans': cfg['trans']['k']}


def check_species(case, ctx):
    from pmutt import constants as c
    cfg = case['cfg']
    sm = build_species(cfg)
    ctx.trace()
    sig0 = _sp_sig(cfg)
    has_trans = cfg['trans']['k'] == 'FreeTrans'
    has_q = cfg['vib']['k'] != 'QRRHOVib' and cfg['elec']['k'] != 'LSR'
    if cfg['refs']:
        ctx.tag('species:refs')
    if cfg['misc']:
        ctx.tag('species:misc')
    if not has_trans:
        ctx.tag('species:no-trans')
    modes = [sm.trans_model, sm.vib_model, sm.rot_model, sm.elec_model, sm.nucl_model]
    n_misc = 1 if cfg['misc'] is None else len(cfg['misc'])
    S_ele = sum(c.S_elements[e] * n for e, n in ELEMENTS.items())
    tot = {}
    for T in ST:
        for P in SP:
            ctx.state(('species', cfg, T, P))
            t = {}
            for g in GET + (['q'] if has_q else []):
                name = 'get_' + g
                default = 1.0 if g == 'q' else 0.0
                va = np.asarray(getattr(sm, name)(T=T, P=P, verbose=True), dtype=float)
                total = _f(getattr(sm, name)(T=T, P=P))
                ctx.evals(2)
                exp = [_f(call(mo, name, T=T, P=P)) for mo in modes]
                if cfg['refs'] and g in ('HoRT', 'GoRT'):
                    off = cfg['refs']['offset']
                    exp.append(-sum(off[e] * n for e, n in ELEMENTS.items()) * cfg['refs']['T_ref'] / T)
                else:
                    exp.append(default)
                if cfg['misc'] is None:
                    exp.append(default)
                else:
                    exp += [ref_mode(x, T, P)[REFKEY[g]] for x in cfg['misc']]
                sg = dict(sig0, getter=g)
                ok = ctx.true('species: verbose form lists 5 modes + references + misc models',
                              va.shape == (6 + n_misc,), sg, case, list(va.shape), [6 + n_misc])
                if not ok:
                    continue
                sc = float(np.sum(np.abs(exp))) + 1.0
                ctx.close('species: verbose entries equal the per-mode getters', va, exp, sg, case, rtol=1e-9,
                          scale=sc if g != 'q' else None)
                if g == 'q':
                    ctx.close('species: total q = product of verbose entries', total, float(np.prod(va)), sg, case,
                              rtol=1e-10)
                else:
                    ctx.close('species: total = sum of verbose entries', total, float(np.sum(va)), sg, case,
                              rtol=1e-10, scale=sc)
                t[g] = total
            tot[(T, P)] = t
            s = abs(t['HoRT']) + abs(t['SoR']) + abs(t['UoRT']) + 1.0
            if cfg['misc']:
                continue        # user-set constant modes take part in the additivity clause only
            ctx.close('species: G = H - S', t['GoRT'], t['HoRT'] - t['SoR'], dict(sig0), case, rtol=1e-10, scale=s)
            ctx.close('species: F = U - S', t['FoRT'], t['UoRT'] - t['SoR'], dict(sig0), case, rtol=1e-10, scale=s)
            # entropy of the elements
            Se = _f(sm.get_SoR(T=T, P=P, S_elements=True))
            Ge = _f(sm.get_GoRT(T=T, P=P, S_elements=True))
            Fe = _f(sm.get_FoRT(T=T, P=P, S_elements=True))
            ctx.true('species: S_elements subtracts the tabulated element entropies',
                     abs(t['SoR'] - Se - S_ele) <= 1e-10 * (s + S_ele), dict(sig0), case, t['SoR'] - Se, S_ele)
            ctx.close('species: G = H - S with S_elements', Ge, t['HoRT'] - Se, dict(sig0), case, rtol=1e-10,
                      scale=s + S_ele)
            ctx.close('species: F = U - S with S_elements', Fe, t['UoRT'] - Se, dict(sig0), case, rtol=1e-10,
                      scale=s + S_ele)
            # H - U and Cp - Cv on the mode totals (references switched off, misc models excluded by
            # construction of the expectation: constant modes carry their own H-U)
            Hn = _f(sm.get_HoRT(T=T, P=P, use_references=False))
            Un = _f(sm.get_UoRT(T=T, P=P, use_references=False))
            dm = 0.0
            dmc = 0.0
            for x in (cfg['misc'] or []):
                r = ref_mode(x, T, P)
                dm += r['H'] - r['U']
                dmc += r['Cp'] - r['Cv']
            ctx.close('species: H - U = RT with ideal-gas translation, 0 without', Hn - Un - dm,
                      1.0 if has_trans else 0.0, dict(sig0), case, rtol=1e-10, scale=abs(Hn) + abs(dm) + 1.0)
            ctx.close('species: Cp - Cv = R with ideal-gas translation, 0 without', t['CpoR'] - t['CvoR'] - dmc,
                      1.0 if has_trans else 0.0, dict(sig0), case, rtol=1e-10, scale=abs(t['CpoR']) + 1.0)
            # options must not change values when every mode has every getter
            for g in ('HoRT', 'SoR', 'GoRT', 'CpoR'):
                for re_, rw in ((True, True), (True, False), (False, True), (False, False)):
                    with warnings.catch_warnings(record=True) as wl:
                        warnings.simplefilter('always')
                        v = _f(getattr(sm, 'get_' + g)(T=T, P=P, raise_error=re_, raise_warning=rw))
                    ctx.close('species: raise_error/raise_warning do not change a complete species', v, t[g],
                              dict(sig0, getter=g), case, rtol=1e-13, scale=abs(t[g]) + 1.0)
                    ctx.true('species: no warning for a complete species',
                             not [x for x in wl if issubclass(x.category, RuntimeWarning)], dict(sig0, getter=g),
                             case, [str(x.message)[:80] for x in wl], [])
        # pressure law on totals
        a, b = tot[(T, SP[0])], tot[(T, SP[1])]
        if 'SoR' not in a or 'SoR' not in b:
            continue
        ctx.trans()
        ctx.close('species: S(P2) - S(P1) = -ln(P2/P1) with ideal-gas translation, 0 without',
                  b['SoR'] - a['SoR'], -math.log(SP[1] / SP[0]) if has_trans else 0.0, dict(sig0), case,
                  rtol=1e-10, scale=abs(a['SoR']) + 10.)
        ctx.close('species: G changes by +ln(P2/P1) with ideal-gas translation, 0 without',
                  b['GoRT'] - a['GoRT'], math.log(SP[1] / SP[0]) if has_trans else 0.0, dict(sig0), case,
                  rtol=1e-10, scale=abs(a['GoRT']) + 10.)
    # references off == species built without references
    if cfg['refs']:
        twin = build_species(cfg, with_refs=False)
        for g in GET:
            for T in ST:
                v1 = np.asarray(getattr(sm, 'get_' + g)(T=T, P=1., use_references=False, verbose=True), float)
                v2 = np.asarray(getattr(twin, 'get_' + g)(T=T, P=1., verbose=True), float)
                ctx.close('species: use_references=False equals the species without references', v1, v2,
                          dict(sig0, getter=g), case, rtol=1e-13, atol=1e-300)
    # zero-point energy option
    vibk = cfg['vib']['k']
    for T in ST:
        e0 = _f(sm.get_EoRT(T=T, include_ZPE=False))
        if 'ZPE' in ref_mode(cfg['vib'], T, 1.):
            e1 = _f(sm.get_EoRT(T=T, include_ZPE=True))
        else:
            # a vibrational model without a zero-point energy: documented to raise unless told not to
            e1 = _f(sm.get_EoRT(T=T, include_ZPE=True, raise_error=False, raise_warning=False))
        ctx.close('species: EoRT without ZPE is the electronic energy', e0, _f(call(sm.elec_model, 'get_UoRT', T=T)),
                  dict(sig0), case, rtol=1e-12, scale=abs(e0) + 1.0)
        zpe = ref_mode(cfg['vib'], T, 1.).get('ZPE', 0.0)
        ctx.close('species: include_ZPE adds ZPE/RT', e1 - e0, zpe / (c.R('eV/K') * T), dict(sig0, vibk=vibk), case,
                  rtol=1e-9, scale=abs(e0) * 1e-6 + abs(zpe / (c.R('eV/K') * T)) + 1e-6)
        if vibk == 'HarmonicVib' and has_q:
            q0 = _f(sm.get_q(T=T, P=1., include_ZPE=False))
            q1 = _f(sm.get_q(T=T, P=1., include_ZPE=True))
            th = ref.theta(ref.valid_wavenumbers(cfg['vib']['w'], cfg['vib'].get('sub')))
            lnr = float(np.sum(th) / (2 * T))
            if q1 > 0 and q0 > 0 and lnr < 600:
                ctx.close('species: q without ZPE = q with ZPE x exp(sum theta/2T)', math.log(q0) - math.log(q1),
                          lnr, dict(sig0), case, rtol=1e-9, scale=lnr + 1.0)
    ctx.nontrivial(('species', cfg))


def _species_cfgs(tier):
    default = {s: SPECIES_ALPHA[s][0] for s in SLOTS}
    if tier == 'thorough':
        for combo in itertools.product(*[SPECIES_ALPHA[s] for s in SLOTS]):
            yield dict(zip(SLOTS, combo)), None
        return
    yield dict(default), 0
    for i, s in enumerate(SLOTS):
        for a in SPECIES_ALPHA[s][1:]:
            c1 = dict(default)
            c1[s] = a
            yield c1, 1
            for s2 in SLOTS[i + 1:]:
                for b in SPECIES_ALPHA[s2][1:]:
                    c2 = dict(c1)
                    c2[s2] = b
                    yield c2, 2


# ------------------------------------------------------- (iii) setter histories
W_MENU = [[450.], W_WATER, [-200., 10., 4500.]]
SPIN_MENU = [0., 0.5, 1.5]


def check_setter(case, ctx):
    """History: construct with hist[0], then assign hist[1], hist[2] ... through the documented setter; the
    object is EVALUATED after construction and after every assignment (a value memoised on first use must
    follow the assignment), each time against a freshly constructed object with the current value."""
    ctx.tag('setter:history')
    cls, hist = case['cls'], case['hist']
    sig = {'cls': cls, 'clause_kind': 'setter'}
    sub = case.get('sub')
    extra = dict(Bav=1e-44, v0=100., alpha=4) if cls == 'QRRHOVib' else {}

    def fresh(v):
        if cls in ('HarmonicVib', 'QRRHOVib'):
            return build_mode(dict(k=cls, w=v, sub=sub, **extra))
        return build_mode(dict(k='GroundStateElec', E=-1.5, spin=v))

    obj = fresh(hist[0])
    ctx.trace()
    ctx.state(('setter', cls, hist, sub))
    for n, v in enumerate(hist):
        if n > 0:
            if cls in ('HarmonicVib', 'QRRHOVib'):
                obj.vib_wavenumbers = list(v)
            else:
                obj.spin = v
            ctx.trans()
        ref_obj = fresh(v)
        for T in (110., 900.):
            for g in GET + (['q'] if cls == 'HarmonicVib' else []):
                a = _f(call(obj, 'get_' + g, T=T))
                b = _f(call(ref_obj, 'get_' + g, T=T))
                ctx.evals(2)
                ctx.close('setter history gives the same values as a fresh object', a, b,
                          dict(sig, getter=g, step='first' if n == 0 else 'after assignment'), case,
                          rtol=1e-13, atol=1e-300)
        if hasattr(obj, 'get_ZPE'):
            ctx.close('setter history gives the same values as a fresh object', _f(obj.get_ZPE()),
                      _f(ref_obj.get_ZPE()), dict(sig, getter='ZPE', step='first' if n == 0 else 'after assignment'),
                      case, rtol=1e-13, atol=1e-300)
    if len(hist) > 1:
        ctx.nontrivial(('setter', cls, hist, sub))


def _setter_cases():
    for cls in ('HarmonicVib', 'QRRHOVib'):
        for sub in (None, 50.):
            for n in (1, 2, 3):
                for hist in itertools.product(W_MENU, repeat=n):
                    yield dict(kind='setter', cls=cls, sub=sub, hist=[list(h) for h in hist])
    for n in (1, 2, 3):
        for hist in itertools.product(SPIN_MENU, repeat=n):
            yield dict(kind='setter', cls='GroundStateElec', hist=list(hist))


# ------------------------------------------- shared caller input (construction histories)
SUB_MENU = [None, 50., 75.]


def check_alias(case, ctx):
    """Several models are built, one after the other, from the SAME caller-owned wavenumber container
    (list / tuple / float ndarray) with different imaginary_substitute settings.  Every model must report
    the textbook values for (the caller's wavenumbers, its own substitute) and the caller's container
    must stay as it was."""
    ctx.tag('alias:shared-input')
    cls, subs, cont, route = case['cls'], case['subs'], case['container'], case['route']
    w0 = list(W_IMAG)
    data = {'list': list(w0), 'tuple': tuple(w0), 'ndarray': np.array(w0, dtype=float)}[cont]
    sig = {'cls': cls, 'clause_kind': 'shared input', 'container': cont}
    extra = dict(Bav=1e-44, v0=100., alpha=4) if cls == 'QRRHOVib' else {}
    from pmutt.statmech.vib import HarmonicVib, QRRHOVib
    K = HarmonicVib if cls == 'HarmonicVib' else QRRHOVib
    ctx.state(('alias', cls, subs, cont, route))
    for n, sub in enumerate(subs):
        if route == 'constructor' or n == 0:
            obj = K(vib_wavenumbers=data, imaginary_substitute=sub, **extra)
        else:
            obj.imaginary_substitute = sub
            obj.vib_wavenumbers = data
        ctx.trans()
        for T in (110., 900.):
            r = ref.harmonic(w0, T, sub) if cls == 'HarmonicVib' else ref.qrrho(w0, T, 1e-44, 100., 4, sub)
            obs = [_f(call(obj, 'get_' + g, T=T)) for g in ('CvoR', 'UoRT', 'SoR')]
            ctx.evals(3)
            ctx.close('model built from a shared wavenumber container reports the textbook values', obs,
                      [r['Cv'], r['U'], r['S']], dict(sig, step=min(n, 1)), case, rtol=1e-9)
        ctx.true('caller-supplied wavenumber container is left unmodified', [float(v) for v in data] == w0,
                 dict(sig, step=min(n, 1)), case, [float(v) for v in data], w0)
    ctx.trace()
    if len(subs) > 1:
        ctx.nontrivial(('alias', cls, subs, cont, route))


def _alias_cases():
    for cls in ('HarmonicVib', 'QRRHOVib'):
        for cont in ('list', 'tuple', 'ndarray'):
            for route in ('constructor', 'setter'):
                for n in (1, 2, 3):
                    for subs in itertools.product(SUB_MENU, repeat=n):
                        yield dict(kind='alias', cls=cls, container=cont, route=route, subs=list(subs))


# ------------------------------------------------------------ labels & options
def check_label(case, ctx):
    from pmutt.statmech.rot import RigidRotor
    ctx.tag('label:point-group')
    label = case['label']
    sig = {'cls': 'RigidRotor', 'input': 'point-group label'}
    for geom, thr in (('linear', [2.1]), ('nonlinear', [40.1, 20.9, 13.4])):
        try:
            m = RigidRotor(symmetrynumber=label, rot_temperatures=thr, geometry=geom)
        except ValueError as e:
            ctx.fail('documented point-group label accepted', sig, case, 'ValueError: %s' % str(e)[:80], 'accepted')
            return
        ctx.trace()
        for T in (150., 1300.):
            r = ref.rotor(geom, ref.POINT_GROUPS[label], thr, T)
            ctx.close('documented point-group label gives the documented symmetry number',
                      [_f(m.get_q(T=T)), _f(m.get_SoR(T=T))], [r['q'], r['S']], sig, case, rtol=1e-10)
    ctx.state(('label', label))
    ctx.nontrivial(('label', label))


class _PartialMode:
    """A user-defined misc model that only knows its enthalpy (to reach the missing-getter branch)."""
    name = 'partial'

    def get_HoRT(self, T):
        return 7.0 / T


def check_missing(case, ctx):
    ctx.tag('option:missing-getter')
    cfg = {s: SPECIES_ALPHA[s][0] for s in SLOTS}
    from pmutt.statmech import StatMech
    sm = build_species(cfg)
    sm.misc_models = [_PartialMode()]
    base = build_species(cfg)
    sig = {'level': 'species', 'option': 'missing getter'}
    T = 400.
    ctx.state(('missing', case['getter']))
    g = case['getter']
    want = _f(getattr(base, 'get_' + g)(T=T, P=1.)) + (7.0 / T if g == 'HoRT' else 0.0)
    if g == 'HoRT':
        ctx.close('partial user model contributes where it has the getter', _f(sm.get_HoRT(T=T, P=1.)), want, sig, case,
                  rtol=1e-12)
        return
    try:
        getattr(sm, 'get_' + g)(T=T, P=1., raise_error=True)
    except AttributeError:
        pass
    else:
        ctx.fail('raise_error=True raises for a mode without the getter', sig, case, 'no exception', 'AttributeError')
    for rw in (True, False):
        with warnings.catch_warnings(record=True) as wl:
            warnings.simplefilter('always')
            v = _f(getattr(sm, 'get_' + g)(T=T, P=1., raise_error=False, raise_warning=rw))
        ctx.close('raise_error=False substitutes the neutral value', v, want, sig, case, rtol=1e-12,
                  scale=abs(want) + 1.0)
        nw = len([x for x in wl if issubclass(x.category, RuntimeWarning)])
        ctx.true('raise_warning controls the warning', (nw > 0) == rw, dict(sig, raise_warning=rw), case, nw,
                 '>0' if rw else 0)
    ctx.nontrivial(('missing', g))


# -------------------------------------------------------------- (iv) geometry
def _cube_rotations():
    mats = []
    for perm in itertools.permutations(range(3)):
        for signs in itertools.product((1, -1), repeat=3):
            M = np.zeros((3, 3))
            for i, (p, s) in enumerate(zip(perm, signs)):
                M[i, p] = s
            if round(np.linalg.det(M)) == 1:
                mats.append(M)
    return mats


def _euler(a, b, g):
    ca, sa, cb, sb, cg, sg = math.cos(a), math.sin(a), math.cos(b), math.sin(b), math.cos(g), math.sin(g)
    Rz1 = np.array([[ca, -sa, 0], [sa, ca, 0], [0, 0, 1]])
    Ry = np.array([[cb, 0, sb], [0, 1, 0], [-sb, 0, cb]])
    Rz2 = np.array([[cg, -sg, 0], [sg, cg, 0], [0, 0, 1]])
    return Rz1 @ Ry @ Rz2


def _generic_rotations():
    out = []
    for a in (0.3, 1.7, 4.1):
        for b in (0.9, 2.2):
            for g in (0.5, 3.3):
                out.append(_euler(a, b, g))
    return out


TRANSLATIONS = [(0., 0., 0.), (3.7, -1.1, 0.4), (100., 100., -100.)]


def _perms(n, ctx=None):
    if n <= 5:
        if ctx:
            ctx.tag('geom:perm-all')
        return [list(p) for p in itertools.permutations(range(n))]
    if ctx:
        ctx.tag('geom:perm-generators')
    out = [list(range(n))]
    for i in range(n):
        for j in range(i + 1, n):
            p = list(range(n))
            p[i], p[j] = p[j], p[i]
            out.append(p)
    out.append(list(range(n))[::-1])
    for s in range(1, n):
        out.append([(i + s) % n for i in range(n)])
    return out


def _geom_obs(atoms):
    from pmutt.statmech.rot import get_geometry_from_atoms, get_rot_temperatures_from_atoms
    from pmutt.statmech.trans import FreeTrans
    from pmutt.statmech import StatMech
    with warnings.catch_warnings():
        warnings.simplefilter('ignore')
        geom = get_geometry_from_atoms(atoms)
        rt = sorted(float(v) for v in get_rot_temperatures_from_atoms(atoms))
    mw = FreeTrans(atoms=atoms).molecular_weight
    sm = StatMech(atoms=atoms)
    return geom, rt, float(mw), dict(sm.elements)


def check_geometry(case, ctx):
    from ase.collections import g2
    name = case['mol']
    base = g2[name]
    n = len(base)
    g0, rt0, mw0, el0 = _geom_obs(base)
    ctx.tag('geom:' + g0)
    sig = {'level': 'geometry'}
    rots = _cube_rotations() + _generic_rotations()
    if case.get('reduced'):
        rots = rots[::3] + _generic_rotations()[:2]
    motions = [(R, t) for R in rots for t in TRANSLATIONS]
    perms = _perms(n, ctx)
    gen = _generic_rotations()[4]
    variants = [('motion', i, None) for i in range(len(motions))]
    variants += [('perm', None, j) for j in range(1, len(perms))]
    variants += [('perm+motion', None, j) for j in range(1, len(perms))]
    if 'only' in case:                       # replay of one variant
        variants = [tuple(case['only'])]
    for kind, i, j in variants:
        a = base.copy()
        pos = a.get_positions()
        if kind == 'motion':
            R, t = motions[i]
            a.set_positions(pos @ R.T + np.array(t))
        else:
            a = a[perms[j]]
            if kind == 'perm+motion':
                a.set_positions(a.get_positions() @ gen.T + np.array(TRANSLATIONS[1]))
        ctx.trans()
        ctx.state(('geom', name, kind, i, j))
        g1, rt1, mw1, el1 = _geom_obs(a)
        ctx.evals(4)
        c1 = dict(case, only=[kind, i, j])
        ctx.equal('geometry class independent of orientation/position/atom order', g1, g0, dict(sig, what='geometry'), c1)
        if len(rt1) == len(rt0):
            ctx.close('rotational temperatures independent of orientation/position/atom order', rt1, rt0,
                      dict(sig, what='rot_temperatures'), c1, rtol=1e-8, atol=1e-12)
        else:
            ctx.fail('rotational temperatures independent of orientation/position/atom order',
                     dict(sig, what='rot_temperatures'), c1, rt1, rt0)
        ctx.close('molar mass independent of orientation/position/atom order', mw1, mw0, dict(sig, what='molar mass'),
                  c1, rtol=1e-13)
        ctx.equal('composition independent of orientation/position/atom order', el1, el0, dict(sig, what='elements'), c1)
        ctx.nontrivial(('geom', name, kind, i, j))
    ctx.trace()
    # closed form: rotational temperatures from the principal moments, molar mass from the formula
    from pmutt import constants as c
    mom = [v for v in base.get_moments_of_inertia() if v > 1e-6]          # amu A^2
    amu = c.convert_unit(initial='amu', final='kg')
    th = sorted(float(c.h('J s') ** 2 / (8 * np.pi ** 2 * c.kb('J/K') * v * amu * 1e-20)) for v in mom)
    if g0 == 'nonlinear':
        ctx.close('rotational temperatures = h^2/(8 pi^2 k I)', rt0, th, dict(sig, what='rot closed form'), case, rtol=1e-6)
    elif g0 == 'linear':
        ctx.close('rotational temperatures = h^2/(8 pi^2 k I)', rt0, [th[0]], dict(sig, what='rot closed form'), case,
                  rtol=1e-6)
    syms = base.get_chemical_symbols()
    ctx.close('molar mass = sum of atomic weights', mw0, sum(c.atomic_weight[s] for s in syms),
              dict(sig, what='molar mass closed form'), case, rtol=1e-12)
    ctx.equal('composition = atom counts', el0, {s: syms.count(s) for s in set(syms)}, dict(sig, what='elements'), case)


# ------------------------------------------------------------------- sharding
def _chunks(seq, n):
    seq = list(seq)
    k = max(1, (len(seq) + n - 1) // n)
    return [seq[i:i + k] for i in range(0, len(seq), k)]


def shards(tier):
    out = []
    modes = _modes_alphabet()
    # Debye modes (slow: numerical integrals) in two shards of three crystals each, so that several crystals
    # with DIFFERENT Debye temperatures are evaluated at the same temperatures inside one process (state
    # shared between objects - class attributes, caches keyed without the parameters - then shows up as a
    # closed-form mismatch of the later crystal)
    for ch in _chunks([m for m in modes if m['k'] == 'DebyeVib'], 2):
        out.append(dict(kind='mode', modes=ch))
    for ch in _chunks([m for m in modes if m['k'] != 'DebyeVib'], 26):
        out.append(dict(kind='mode', modes=ch))
    n_sp = 48 if tier == 'quick' else 160
    cfgs = [c for c, _ in _species_cfgs(tier)]
    for ch in _chunks(range(len(cfgs)), n_sp):
        out.append(dict(kind='species', lo=ch[0], hi=ch[-1] + 1))
    out.append(dict(kind='small'))
    from ase.collections import g2
    names = list(g2.names)
    for ch in _chunks(names, 27):
        out.append(dict(kind='geometry', mols=ch, reduced=(tier == 'quick')))
    return out


def run_shard(shard, ctx):
    k = shard['kind']
    if k == 'mode':
        for m in shard['modes']:
            case = dict(kind='mode', mode=m)
            ctx.run_case(check_case, case, {'cls': m['k']})
            ctx.sample(case, limit=1)
    elif k == 'species':
        cfgs = [c for c, _ in _species_cfgs(ctx.tier)][shard['lo']:shard['hi']]
        for cfg in cfgs:
            case = dict(kind='species', cfg=cfg)
            ctx.run_case(check_case, case, _sp_sig(cfg))
        ctx.sample(dict(kind='species', cfg=cfgs[-1]), limit=1)
    elif k == 'small':
        for case in _setter_cases():
            ctx.run_case(check_case, case, {'cls': case['cls'], 'clause_kind': 'setter'})
        ctx.sample(case, limit=1)
        for case in _alias_cases():
            ctx.run_case(check_case, case, {'cls': case['cls'], 'clause_kind': 'shared input'})
        ctx.sample(case, limit=1)
        for label in ref.POINT_GROUPS:
            ctx.run_case(check_case, dict(kind='label', label=label), {'cls': 'RigidRotor', 'input': 'point-group label'})
        for g in ['HoRT', 'SoR', 'CpoR', 'GoRT', 'q']:
            ctx.run_case(check_case, dict(kind='missing', getter=g), {'level': 'species', 'option': 'missing getter'})
    elif k == 'geometry':
        for mol in shard['mols']:
            case = dict(kind='geometry', mol=mol, reduced=shard['reduced'])
            ctx.run_case(check_case, case, {'level': 'geometry'})
        ctx.sample(case, limit=1)


def check_case(case, ctx):
    k = case['kind']
    if k == 'mode':
        check_mode(case, ctx)
    elif k == 'species':
        check_species(case, ctx)
    elif k == 'setter':
        check_setter(case, ctx)
    elif k == 'alias':
        check_alias(case, ctx)
    elif k == 'label':
        check_label(case, ctx)
    elif k == 'missing':
        check_missing(case, ctx)
    elif k == 'geometry':
        check_geometry(case, ctx)
    else:
        raise ValueError(k)
