"""Runner for the pMuTT model checker.

    ./check <ID> --tier quick|thorough      explore, write evidence/<ID>.json
    ./check <ID> --replay FILE              re-evaluate one recorded case
    ./check --setup                         verify interpreter / import root
    ./check --list

Exit 0: property held on everything explored (known findings subtracted).
Exit 1: at least one line "VIOLATION property=<ID> replay=<path>".
Exit 2: harness error (nondeterminism, deaf oracle, crash in harness code).
"""
import argparse
import importlib
import json
import multiprocessing as mp
import os
import random
import subprocess
import sys
import time
import traceback

HERE = os.path.dirname(os.path.realpath(__file__))
VERIF = os.path.dirname(HERE)
sys.path.insert(0, VERIF)

from pmc.engine import core  # noqa: E402

sys.path.insert(0, core.REPO_ROOT)

ALL_IDS = ['C%02d' % i for i in range(1, 21)]
MAX_LINES = 25


def _import_pmutt():
    import pmutt
    p = os.path.realpath(os.path.dirname(pmutt.__file__))
    if not p.startswith(core.REPO_ROOT + os.sep):
        raise core.HarnessError('pmutt imported from %s, expected under %s' % (p, core.REPO_ROOT))
    return pmutt


def load(pid):
    return importlib.import_module('pmc.props.%s' % pid.lower())


# --------------------------------------------------------------------- workers
def _freeze_seams():
    """Harness-side determinism seams (no edit of /repo): frozen clock for writers."""
    import datetime as _dt

    class _Frozen(_dt.datetime):
        @classmethod
        def now(cls, tz=None):
            return cls(2020, 1, 2, 3, 4, 5)

    for modname in ('pmutt.io.thermdat', 'pmutt.io.chemkin', 'pmutt.io.omkm', 'pmutt.io'):
        try:
            m = importlib.import_module(modname)
        except Exception:
            continue
        if hasattr(m, 'datetime'):
            d = getattr(m, 'datetime')
            if isinstance(d, type):
                setattr(m, 'datetime', _Frozen)
            elif hasattr(d, 'datetime'):
                # module object: cannot patch the C type; wrap the module
                class _Mod:
                    pass
                w = _Mod()
                w.__dict__.update({k: getattr(d, k) for k in dir(d) if not k.startswith('__')})
                w.datetime = _Frozen
                setattr(m, 'datetime', w)


def _worker(arg):
    pid, tier, seed, idx, shard = arg
    t0 = time.time()
    try:
        mod = load(pid)
        _freeze_seams()
        ctx = core.Ctx(pid, tier, seed)
        mod.run_shard(shard, ctx)
        ex = ctx.export()
        for v in ex['violations'].values():
            v['shard_index'] = idx
        return idx, ex, None, time.time() - t0
    except BaseException as e:  # noqa
        return idx, None, '%s\n%s' % (repr(e), traceback.format_exc()), time.time() - t0


def _replay_worker(arg):
    pid, tier, case, run_sig = arg
    try:
        mod = load(pid)
        _freeze_seams()
        ctx = core.Ctx(pid, tier, 0, replay=True)
        ctx.run_case(mod.check_case, case, run_sig)
        ex = ctx.export()
        return sorted(ex['violations'].keys()), ex['violations'], ctx.log, None
    except BaseException as e:  # noqa
        return None, None, None, '%s\n%s' % (repr(e), traceback.format_exc())


def _shard_replay_worker(arg):
    """Re-run one whole shard in a fresh process (for violations that depend on the history of
    calls inside the shard, e.g. state leaking between objects or calls)."""
    pid, tier, shard = arg
    try:
        mod = load(pid)
        _freeze_seams()
        ctx = core.Ctx(pid, tier, 0)
        mod.run_shard(shard, ctx)
        ex = ctx.export()
        return sorted(ex['violations'].keys()), ex['violations'], [], None
    except BaseException as e:  # noqa
        return None, None, None, '%s\n%s' % (repr(e), traceback.format_exc())


def _pool(n):
    ctx = mp.get_context('fork')
    return ctx.Pool(processes=n, maxtasksperchild=1)


# ------------------------------------------------------------------- findings
def load_findings(pid):
    import glob
    paths = [os.path.join(VERIF, 'known_findings.json')]
    paths += sorted(glob.glob(os.path.join(VERIF, 'findings.d', '*.json')))  # builders' fragments
    out = []
    for path in paths:
        if not os.path.exists(path):
            continue
        with open(path) as f:
            data = json.load(f)
        out += [e for e in data.get('findings', []) if e.get('property') == pid]
    return out


def _match(entry, sig):
    m = entry.get('match', {})
    for k, v in m.items():
        if k not in sig:
            return False
        if isinstance(v, list):
            if sig[k] not in v:
                return False
        elif sig[k] != v:
            return False
    return True


# ------------------------------------------------------------------- evidence
def validate_evidence(path):
    schema = '/root/.vp/EVIDENCE.schema.json'
    if not os.path.exists(schema):
        return 'schema not present; structural check only'
    code = ("import json,sys,jsonschema;"
            "jsonschema.validate(json.load(open(sys.argv[1])),json.load(open(sys.argv[2])))")
    try:
        r = subprocess.run(['python3-vt', '-c', code, path, schema], capture_output=True,
                           text=True, timeout=60)
    except Exception as e:  # python3-vt missing
        return 'jsonschema unavailable (%s)' % type(e).__name__
    if r.returncode != 0:
        return 'INVALID: %s' % r.stderr[-300:]
    return 'validated with jsonschema'


def write_evidence(pid, tier, seed, mod, merged, wall, n_shards, known, unknown, stale, errors):
    clauses = {}
    vacuous = []
    for k, c in sorted(merged['clauses'].items()):
        clauses[k] = dict(checked=c['checked'], failed=c['failed'],
                          worst_residual_over_tol=c['worst'], tolerance=c['tol'],
                          distinct_outcomes=len(c['outcomes']), canary=c['canary'])
        if c['checked'] > 10 and len(c['outcomes']) == 1 and c['tol'] != 'predicate':
            vacuous.append(k)
    planned = list(getattr(mod, 'PLANNED_TAGS', {}).get(tier, getattr(mod, 'PLANNED_TAGS', {}).get('all', []))) \
        if isinstance(getattr(mod, 'PLANNED_TAGS', None), dict) else list(getattr(mod, 'PLANNED_TAGS', []))
    unreached = [t for t in planned if merged['tags'].get(t, 0) == 0]
    rnd = random.Random(seed)
    samples = list(merged['samples'])
    rnd.shuffle(samples)
    samples = samples[:5] or [{'note': 'no sample recorded'}]
    cov = dict(
        states=max(len(merged['states']), 0),
        transitions=merged['transitions'],
        traces_validated_against_impl=merged['traces'],
        evaluations=merged['evaluations'],
        distinct_nontrivial=len(merged['nontriv']),
        rule=getattr(mod, 'RULE', ''),
        samples=samples,
        exhaustive=(not unreached and not errors),
        bounds=mod.bounds(tier) if hasattr(mod, 'bounds') else {},
        shards=n_shards,
        distinct_outcomes=sum(len(c['outcomes']) for c in merged['clauses'].values()),
        clauses=clauses,
        branch_tags=dict(sorted(merged['tags'].items())),
        unreached=unreached,
        vacuous_clauses=vacuous,
        model_refused=dict(merged['refused']),
        known_findings_matched=[e['what'] for e in known],
        stale_known_findings=[e['what'] for e in stale],
        caps_hit=[],
        explanation=getattr(mod, 'EXPLANATION', ''),
    )
    ev = dict(property_id=pid, tier=tier, seed=int(seed), level='model_checking', coverage=cov,
              assumptions=list(getattr(mod, 'ASSUMPTIONS', [])), wall_s=round(wall, 3),
              violations=len(unknown))
    evdir = os.environ.get('PMUTT_VERIF_EVIDENCE_DIR') or os.path.join(VERIF, 'evidence')   # self-test only
    os.makedirs(evdir, exist_ok=True)
    path = os.path.join(evdir, '%s.json' % pid)
    with open(path, 'w') as f:
        json.dump(core.jsonable(ev), f, indent=1, sort_keys=True)
    ev['coverage']['schema_check'] = validate_evidence(path)
    if ev['coverage']['schema_check'].startswith('INVALID'):
        # an exploration that was cut short by violations may have no transitions: fall back to the
        # generic counts rather than report invalid evidence
        for k in ('states', 'transitions', 'traces_validated_against_impl'):
            if not ev['coverage'].get(k):
                ev['coverage'].pop(k, None)
        with open(path, 'w') as f:
            json.dump(core.jsonable(ev), f, indent=1, sort_keys=True)
        ev['coverage']['schema_check'] = validate_evidence(path)
        if ev['coverage']['schema_check'].startswith('INVALID') and not unknown:
            raise core.HarnessError('evidence does not validate: %s' % ev['coverage']['schema_check'])
    return path, ev


# ----------------------------------------------------------------------- run
def run(pid, tier, seed, workers):
    t0 = time.time()
    _import_pmutt()
    mod = load(pid)
    shards = list(mod.shards(tier))
    order = list(range(len(shards)))
    random.Random(seed).shuffle(order)   # seed only permutes the visiting order
    args = [(pid, tier, seed, i, shards[i]) for i in order]
    results = {}
    errors = []
    with _pool(min(workers, max(1, len(args)))) as pool:
        for idx, ex, err, dt in pool.imap_unordered(_worker, args, chunksize=1):
            if err:
                errors.append((idx, err))
            else:
                results[idx] = ex
    if errors:
        for idx, err in errors[:3]:
            print('HARNESS-ERROR property=%s shard=%d\n%s' % (pid, idx, err))
        return 2
    merged = core.merge([results[i] for i in sorted(results)])

    findings = load_findings(pid)
    known_entries = [e for e in findings if e.get('status') == 'known']
    known_hit, unknown = {}, []
    for key in sorted(merged['violations']):
        rec = merged['violations'][key]
        rec['count'] = merged['viol_counts'].get(key, 1)
        hit = None
        for e in known_entries:
            if _match(e, rec['signature']):
                hit = e
                break
        if hit is not None:
            known_hit.setdefault(id(hit), (hit, []))[1].append(rec)
        else:
            unknown.append(rec)
    stale = [e for e in known_entries if id(e) not in known_hit]

    # replay (twice, fresh processes) every unknown violation that will be printed
    rdir = os.path.join(os.environ.get('PMUTT_VERIF_REPLAY_DIR') or os.path.join(VERIF, 'replays'), pid)
    lines = []
    rc = 0
    to_print = unknown[:MAX_LINES]
    if to_print:
        os.makedirs(rdir, exist_ok=True)
        rargs = []
        for rec in to_print:
            rargs += [(pid, tier, rec['case'], rec.get('run_sig'))] * 2
        with _pool(min(workers, len(rargs))) as pool:
            rres = pool.map(_replay_worker, rargs, chunksize=1)
        for i, rec in enumerate(to_print):
            a, b = rres[2 * i], rres[2 * i + 1]
            key = core.dumps(rec['signature'])
            if a[3] or b[3]:
                print('HARNESS-ERROR property=%s replay crashed\n%s' % (pid, a[3] or b[3]))
                rc = 2
                continue
            if a[0] != b[0]:
                print('NONDETERMINISTIC property=%s signature=%s' % (pid, key))
                rc = 2
                continue
            if key not in a[0]:
                # not reproduced by the case alone: the violation may depend on what ran before it in
                # the same process (shared state).  Re-run the whole shard twice in fresh processes.
                sh = shards[rec['shard_index']]
                with _pool(2) as pool2:
                    sa, sb = pool2.map(_shard_replay_worker, [(pid, tier, sh)] * 2, chunksize=1)
                if sa[3] or sb[3]:
                    print('HARNESS-ERROR property=%s shard replay crashed\n%s' % (pid, sa[3] or sb[3]))
                    rc = 2
                    continue
                if sa[0] != sb[0]:
                    print('NONDETERMINISTIC property=%s signature=%s' % (pid, key))
                    rc = 2
                    continue
                if key not in sa[0]:
                    print('UNREPRODUCIBLE property=%s signature=%s (replay gave %s)' % (pid, key, a[0][:3]))
                    rc = 2
                    continue
                rec['replay_mode'] = 'shard'
                rec['shard'] = sh
                rec['note'] = ('history-dependent: the case alone does not fail in a fresh process; it fails '
                               'after the cases that precede it in its shard (state shared between calls/objects)')
            path = os.path.join(rdir, '%016x.json' % core.hkey(key))
            with open(path, 'w') as f:
                json.dump(rec, f, indent=1, sort_keys=True)
            lines.append('VIOLATION property=%s replay=%s' % (pid, path))
            print('VIOLATION property=%s replay=%s' % (pid, path))
            print('  signature=%s count=%d observed=%s expected=%s' % (
                key, rec['count'], str(rec['observed'])[:160], str(rec['expected'])[:160]))
        if len(unknown) > MAX_LINES:
            print('... %d more distinct violation signatures not printed' % (len(unknown) - MAX_LINES))
    for hit, recs in known_hit.values():
        print('KNOWN-FINDING: property=%s %s (%d signature(s), %d case(s))' % (
            pid, hit['what'], len(recs), sum(r['count'] for r in recs)))
        os.makedirs(rdir, exist_ok=True)
        rec = recs[0]
        path = os.path.join(rdir, 'known_%016x.json' % core.hkey(core.dumps(rec['signature'])))
        with open(path, 'w') as f:
            json.dump(rec, f, indent=1, sort_keys=True)
    for e in stale:
        print('STALE-KNOWN-FINDING: property=%s %s' % (pid, e['what']))

    wall = time.time() - t0
    path, ev = write_evidence(pid, tier, seed, mod, merged, wall, len(shards),
                              [h for h, _ in known_hit.values()], unknown, stale, errors)
    cov = ev['coverage']
    if cov['vacuous_clauses']:
        print('NOTE vacuous clauses (single outcome): %s' % cov['vacuous_clauses'])
    if cov['unreached']:
        print('NOTE unreached planned branch tags: %s' % cov['unreached'])
    print('%s tier=%s seed=%d shards=%d states=%d transitions=%d traces=%d evaluations=%d '
          'distinct_nontrivial=%d outcomes=%d violations=%d known=%d wall=%.1fs' % (
              pid, tier, seed, len(shards), cov['states'], cov['transitions'],
              cov['traces_validated_against_impl'], cov['evaluations'], cov['distinct_nontrivial'],
              cov['distinct_outcomes'], len(unknown), len(known_hit), wall))
    if lines:
        return 1            # at least one violation reproduced identically twice: that is the verdict
    if rc:
        return rc           # only unreproducible / nondeterministic observations: harness problem
    return 1 if unknown else 0


def replay(pid, path, tier):
    _import_pmutt()
    with open(path) as f:
        rec = json.load(f)
    case = rec['case'] if 'case' in rec and 'signature' in rec else rec
    run_sig = rec.get('run_sig') if 'signature' in rec else None
    if rec.get('replay_mode') == 'shard':
        with _pool(2) as pool:
            a, b = pool.map(_shard_replay_worker, [(pid, tier, rec['shard'])] * 2, chunksize=1)
        if not (a[3] or b[3]):
            want = core.dumps(rec['signature'])
            a = (a[0], {k: v for k, v in a[1].items() if k == want}, a[2], a[3])
    else:
        with _pool(2) as pool:
            a, b = pool.map(_replay_worker, [(pid, tier, case, run_sig)] * 2, chunksize=1)
    if a[3] or b[3]:
        print('HARNESS-ERROR\n%s' % (a[3] or b[3]))
        return 2
    if a[0] != b[0]:
        print('NONDETERMINISTIC property=%s' % pid)
        return 2
    for entry in a[2]:
        if not entry['ok']:
            print('FAILED clause=%s\n  observed=%s\n  expected=%s' % (
                entry['clause'], str(entry['observed'])[:400], str(entry['expected'])[:400]))
    for key, v in a[1].items():
        print('VIOLATION property=%s replay=%s' % (pid, path))
        print('  signature=%s\n  observed=%s\n  expected=%s' % (key, str(v['observed'])[:400],
                                                               str(v['expected'])[:400]))
    if not a[1]:
        print('replay: no violation; %d clause evaluations passed' % len(a[2]))
    return 1 if a[1] else 0


def setup():
    pm = _import_pmutt()
    for d in ('evidence', 'replays'):
        os.makedirs(os.path.join(VERIF, d), exist_ok=True)
    import numpy, scipy  # noqa
    print('setup ok: python %s, pmutt from %s, numpy %s, scipy %s' % (
        sys.version.split()[0], os.path.dirname(pm.__file__), numpy.__version__, scipy.__version__))
    return 0


def main():
    ap = argparse.ArgumentParser()
    ap.add_argument('pid', nargs='?')
    ap.add_argument('--tier', default=os.environ.get('VERIF_TIER', 'quick'),
                    choices=['quick', 'thorough'])
    ap.add_argument('--replay')
    ap.add_argument('--setup', action='store_true')
    ap.add_argument('--list', action='store_true')
    ap.add_argument('--workers', type=int, default=int(os.environ.get('VERIF_WORKERS', '16')))
    a = ap.parse_args()
    if a.setup:
        return setup()
    if a.list:
        print(' '.join(ALL_IDS))
        return 0
    if not a.pid:
        ap.error('property id required')
    pid = a.pid.upper()
    try:
        seed = int(os.environ.get('VERIF_SEED', '0'))
    except ValueError:
        seed = 0
    try:
        if a.replay:
            return replay(pid, a.replay, a.tier)
        return run(pid, a.tier, seed, a.workers)
    except core.HarnessError as e:
        print('HARNESS-ERROR %s' % e)
        return 2


if __name__ == '__main__':
    sys.exit(main())
