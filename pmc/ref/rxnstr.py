"""Reference grammar for reaction strings (C14).  Independent of pMuTT.

A *side* is a list of [coef_text, name]; coef_text is '' (omitted = 1), an integer
literal or a decimal literal with a leading digit.  A reaction string is

    side  RD  [ts-side  RD]  side          (RD = reaction delimiter literal)
    side  = term (SD term)*                (SD = species delimiter literal)
    term  = coef_text gap name

with extra spaces inserted according to a *style*.  The delimiter literal is used exactly as
given (a delimiter ' + ' contains its spaces); styles only ever ADD spaces.
"""
import math
import re
from fractions import Fraction

# style -> (lead, around-delimiter, coefficient-gap, trail)
STYLES = {
    0: ('', '', '', ''),            # none
    1: ('', ' ', '', ''),           # one space around every delimiter
    2: ('  ', '', '', ' '),         # leading / trailing only
    3: ('', '   ', '', ''),         # multiple spaces around delimiters
    4: ('', ' ', ' ', ''),          # a space between coefficient and name
    5: ('   ', '  ', '   ', '  '),  # everything, multiple
}

# a name starts with anything of the name alphabet but a digit (the statement: "letters, digits after the first
# character, parentheses, asterisks and underscores"); the alphabets of C14 use a letter or an underscore first
_NAME = re.compile(r'^[A-Za-z_][A-Za-z0-9()*_]*$')
_TERM = re.compile(r'^(\d+(?:\.\d+)?)?\s*([A-Za-z_][A-Za-z0-9()*_]*)$')


def valid_name(name):
    return bool(_NAME.match(name))


def build_side(side, sd, style):
    lead, ar, gap, trail = STYLES[style]
    terms = []
    for ct, name in side:
        terms.append(ct + (gap if ct else '') + name)
    return (ar + sd + ar).join(terms)


def build(r, p, ts, sd, rd, style):
    """The reaction string for reactant side r, product side p, optional ts side."""
    lead, ar, gap, trail = STYLES[style]
    parts = [build_side(r, sd, style)]
    if ts is not None:
        parts.append(build_side(ts, sd, style))
    parts.append(build_side(p, sd, style))
    return lead + (ar + rd + ar).join(parts) + trail


def ambiguous(sides, sd, rd, coef_texts=None):
    """Exclusion rule: a delimiter (without its surrounding blanks) that occurs inside a name or
    inside a written coefficient makes the string inherently ambiguous; so does a delimiter
    contained in the other one."""
    cores = [sd.strip(), rd.strip()]
    if not cores[0] or not cores[1]:
        return True
    if cores[0] in cores[1] or cores[1] in cores[0]:
        return True
    texts = list(coef_texts or [])
    for side in sides:
        if side is None:
            continue
        for ct, name in side:
            texts.append(ct)
            texts.append(name)
    for t in texts:
        for c in cores:
            if t and c in t:
                return True
    return False


def merged(side):
    """[(name, Fraction)] in first-occurrence order, repeated names summed, '' read as 1."""
    order, tot = [], {}
    for ct, name in side:
        v = Fraction(ct) if ct else Fraction(1)
        if name not in tot:
            order.append(name)
            tot[name] = v
        else:
            tot[name] += v
    return [(n, tot[n]) for n in order]


def ref_parse(text, sd, rd):
    """Independent parser of a reaction string with literal delimiters sd / rd.
    Returns (reactants, products, ts) with each side [(name, Fraction)] merged, ts None if
    absent.  Raises ValueError if the text is not in the grammar."""
    states = text.split(rd)
    if len(states) not in (2, 3):
        raise ValueError('expected 2 or 3 states, got %d in %r' % (len(states), text))
    out = []
    for st in states:
        side = []
        for term in st.split(sd):
            m = _TERM.match(term.strip())
            if m is None:
                raise ValueError('term %r not in grammar (%r)' % (term, text))
            side.append([m.group(1) or '', m.group(2)])
        out.append(merged(side))
    if len(out) == 2:
        return out[0], out[1], None
    return out[0], out[2], out[1]


def half_unit(fmt, v):
    """Half a unit in the last digit that format `fmt` prints for value v."""
    m = re.match(r'^\.(\d+)f$', fmt)
    if m:
        return 0.5 * 10.0 ** (-int(m.group(1)))
    if fmt == 'g':
        if v == 0:
            return 0.5e-6
        return 0.5 * 10.0 ** (math.floor(math.log10(abs(v))) - 5)
    raise ValueError(fmt)


def coef_class(v):
    """Categorical class of a coefficient value (for tags / signatures)."""
    r = round(v)
    if v == 1.0:
        return 'one'
    if v == r:
        return 'int'
    if abs(v - r) < 1e-9:
        return 'below-integer' if v < r else 'above-integer'
    return 'decimal'
