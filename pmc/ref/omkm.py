"""Boring reference readers for the files pMuTT writes for OpenMKM / Cantera (property C07).

Nothing in here imports pMuTT.  The readers are deliberately plain:

* thermo / reactor YAML: ``yaml.BaseLoader`` (every scalar stays a string, which is how a
  YAML-1.2 reader such as yaml-cpp sees the file) plus a textual scan for python-specific tags,
  anchors and aliases;
* CTI: the text is parsed with ``ast`` into a flat sequence of call expressions with literal
  arguments (nested calls such as ``NASA([...], [...])`` or ``stick(...)`` become dictionaries);
* ``"r_0001 to r_0004"`` style id ranges are expanded with a three-line loop;
* equations are split on ``<=>`` and ``+``.
"""
import ast
import re

import yaml

# ------------------------------------------------------------------------------- YAML
_BAD_YAML = [('python tag', re.compile(r'!!python')), ('binary tag', re.compile(r'!!binary')),
             ('explicit tag', re.compile(r'(^|[\s\[,:-])!(?:![A-Za-z]|<)')),
             ('anchor', re.compile(r'(^|[\s\[,:-])&id\d+')), ('alias', re.compile(r'(^|[\s\[,:-])\*id\d+'))]


def yaml_problems(text):
    """List of reasons why the text is not a plain (language-independent) YAML document."""
    out = []
    body = '\n'.join(l for l in text.split('\n') if not l.lstrip().startswith('#'))
    for name, rx in _BAD_YAML:
        if rx.search(body):
            out.append(name)
    return out


def load_yaml(text):
    """Load with the BaseLoader: mappings, sequences and *strings* only."""
    return yaml.load(text, Loader=yaml.BaseLoader)


def is_scalar(v):
    return isinstance(v, str)


def to_float(v):
    """float of a YAML scalar; None when it is not a scalar number."""
    if not isinstance(v, str):
        return None
    try:
        return float(v)
    except ValueError:
        return None


def qty(v):
    """'2.5 cm3' -> (2.5, 'cm3');  None if the scalar has not that shape."""
    if not isinstance(v, str):
        return None
    parts = v.split(' ')
    if len(parts) != 2 or parts[1] == '':
        return None
    try:
        return float(parts[0]), parts[1]
    except ValueError:
        return None


def to_bool(v):
    if isinstance(v, str) and v.lower() in ('true', 'false'):
        return v.lower() == 'true'
    return None


# --------------------------------------------------------------------------- id ranges
def expand_ids(items):
    """['r_0000 to r_0002', 'u_0007'] -> ['r_0000', 'r_0001', 'r_0002', 'u_0007'].

    A single string is taken as a whitespace-free id or a range.  Returns None for a shape that
    is not a list of id / range strings."""
    if isinstance(items, str):
        items = [items]
    if not isinstance(items, (list, tuple)):
        return None
    out = []
    for it in items:
        if not isinstance(it, str):
            return None
        if ' to ' in it:
            lo, hi = it.split(' to ')
            pl, nl = lo.rsplit('_', 1) if '_' in lo else ('', lo)
            ph, nh = hi.rsplit('_', 1) if '_' in hi else ('', hi)
            if pl != ph or not (nl.isdigit() and nh.isdigit()) or len(nl) != len(nh):
                return None
            for k in range(int(nl), int(nh) + 1):
                out.append(('%s_' % pl if '_' in lo else '') + str(k).zfill(len(nl)))
        else:
            out.append(it)
    return out


# --------------------------------------------------------------------------- equations
def parse_side(side):
    out = []
    for term in side.split(' + '):
        term = term.strip()
        if not term:
            return None
        parts = term.split(' ')
        if len(parts) == 1:
            out.append((1.0, parts[0]))
        elif len(parts) == 2:
            try:
                out.append((float(parts[0]), parts[1]))
            except ValueError:
                return None
        else:
            return None
    return out


def parse_equation(eq):
    """'H2 + 2 RU(T) <=> 2 H(T) + 2 RU(B)' -> ([(1,'H2'),(2,'RU(T)')], [(2,'H(T)'),(2,'RU(B)')])."""
    if not isinstance(eq, str) or eq.count('<=>') != 1:
        return None
    lhs, rhs = eq.split('<=>')
    a, b = parse_side(lhs), parse_side(rhs)
    if a is None or b is None:
        return None
    return a, b


# --------------------------------------------------------------------------------- CTI
CTI_TOP = {'units', 'ideal_gas', 'stoichiometric_solid', 'interacting_interface', 'species',
           'surface_reaction', 'lateral_interaction', 'bep', 'enable_motz_wise', 'disable_motz_wise'}
CTI_NESTED = {'NASA': 7, 'NASA9': 9, 'Shomate': 7, 'stick': 3}


class CTIError(Exception):
    pass


def _lit(node):
    if isinstance(node, ast.Call):
        if not isinstance(node.func, ast.Name):
            raise CTIError('call of a non-name')
        name = node.func.id
        if name not in CTI_NESTED:
            raise CTIError('nested directive %s not in the vocabulary' % name)
        args = [_lit(a) for a in node.args]
        kwargs = {k.arg: _lit(k.value) for k in node.keywords}
        return {'_call': name, 'args': args, 'kwargs': kwargs}
    if isinstance(node, (ast.Tuple, ast.List)):
        vals = [_lit(e) for e in node.elts]
        return vals if isinstance(node, ast.List) else tuple(vals)
    try:
        return ast.literal_eval(node)
    except Exception:
        raise CTIError('argument is not a literal: %s' % ast.dump(node)[:80])


def parse_cti(text):
    """-> list of (directive, args, kwargs).  Raises CTIError when the text is not a sequence of
    call expressions over the directive vocabulary with literal arguments."""
    try:
        tree = ast.parse(text)
    except SyntaxError as e:
        raise CTIError('syntax error line %s' % e.lineno)
    out = []
    for st in tree.body:
        if not (isinstance(st, ast.Expr) and isinstance(st.value, ast.Call)
                and isinstance(st.value.func, ast.Name)):
            raise CTIError('statement at line %d is not a directive call' % st.lineno)
        name = st.value.func.id
        if name not in CTI_TOP:
            raise CTIError('directive %s not in the vocabulary' % name)
        args = [_lit(a) for a in st.value.args]
        kwargs = {}
        for k in st.value.keywords:
            if k.arg is None or k.arg in kwargs:
                raise CTIError('bad keyword in %s' % name)
            kwargs[k.arg] = _lit(k.value)
        out.append((name, args, kwargs))
    return out


def cti_atoms(s):
    """'Ru:1 N:1' -> {'Ru': 1.0, 'N': 1.0}"""
    out = {}
    for tok in s.split():
        k, v = tok.split(':')
        if k in out:
            return None
        out[k] = float(v)
    return out


def thermo_blocks(th):
    """thermo=... value -> list of (kind, [Tlo, Thi], [coeffs]); None when malformed."""
    blocks = th if isinstance(th, tuple) else (th,)
    out = []
    for b in blocks:
        if not (isinstance(b, dict) and '_call' in b) or b['kwargs'] or len(b['args']) != 2:
            return None
        rng, co = b['args']
        if not (isinstance(rng, list) and len(rng) == 2 and isinstance(co, list)):
            return None
        if len(co) != CTI_NESTED.get(b['_call'], -1) or b['_call'] == 'stick':
            return None
        out.append((b['_call'], [float(v) for v in rng], [float(v) for v in co]))
    return out


# ------------------------------------------------------------------------------- units
QUANTITY_PER_MOL = {'mol': 1.0, 'molec': 6.02214086e+23, 'kmol': 1.0e-3}
LENGTH_PER_CM = {'cm': 1.0, 'm': 1.0e-2, 'mm': 10.0}
MASS_PER_G = {'g': 1.0, 'kg': 1.0e-3}


def unit_from_template(template, units):
    """'_length3/_time' -> 'cm3/s' for a units mapping {'length': 'cm', 'time': 's', ...}."""
    out = template
    for key in sorted(units, key=len, reverse=True):
        out = out.replace('_' + key, units[key])
    return out
