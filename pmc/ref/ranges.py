"""Reference reader of CTI/OpenMKM id-range notation and of CTI wrapped strings (C18).
Independent of pMuTT.

Range notation:  ["a_0001 to a_0004", "b_7"]   (string form)
                 ['"a_0001 to a_0004"', '"b_7"'] (list form; the quotes are optional)
An item 'X to Y' denotes the ids prefix + zero-padded integer for every integer from X's
trailing digit run to Y's, padded to the width of X's digit run; X and Y must have the same
prefix and Y must be written the way that rule writes it (otherwise the item is malformed).
"""
import re

_ITEM = re.compile(r'"([^"]*)"')
# [0-9] and \Z on purpose: \d also matches non-ASCII decimal digits and $ also matches before a final newline
_SPLIT = re.compile(r'^(.*?)([0-9]+)\Z', re.S)


class Malformed(ValueError):
    pass


def expand_item(item):
    if ' to ' not in item:
        return [item]
    parts = item.split(' to ')
    if len(parts) != 2:
        raise Malformed('more than one " to " in %r' % item)
    mlo, mhi = _SPLIT.match(parts[0]), _SPLIT.match(parts[1])
    if mlo is None or mhi is None:
        raise Malformed('range end without trailing integer in %r' % item)
    if mlo.group(1) != mhi.group(1):
        raise Malformed('range ends with different prefixes in %r' % item)
    w = len(mlo.group(2))
    lo, hi = int(mlo.group(2)), int(mhi.group(2))
    if hi < lo:
        raise Malformed('descending range %r' % item)
    if '%0*d' % (w, hi) != mhi.group(2):
        raise Malformed('range ends written with inconsistent widths in %r' % item)
    return [mlo.group(1) + '%0*d' % (w, k) for k in range(lo, hi + 1)]


def items_of_string(text):
    """Items of the string form '["..", ".."]'."""
    if not isinstance(text, str):
        raise Malformed('string form is not a str: %r' % type(text).__name__)
    if not (text.startswith('[') and text.endswith(']')):
        raise Malformed('string form lacks brackets: %r' % text[:60])
    body = text[1:-1]
    if body == '':
        return []
    items = _ITEM.findall(body)
    if ', '.join('"%s"' % it for it in items) != body:
        raise Malformed('string form is not a list of quoted items: %r' % text[:80])
    return items


def items_of_list(lst):
    if not isinstance(lst, list):
        raise Malformed('list form is not a list: %r' % type(lst).__name__)
    out = []
    for el in lst:
        if not isinstance(el, str):
            raise Malformed('list element is not a str: %r' % (el,))
        if len(el) >= 2 and el[0] == '"' and el[-1] == '"':
            el = el[1:-1]
        if '"' in el or el == '':
            raise Malformed('list element %r is not an id or id range' % el)
        out.append(el)
    return out


def expand(out, form):
    """All ids denoted by an output of the range function (with multiplicity)."""
    items = items_of_string(out) if form == 'str' else items_of_list(out)
    ids = []
    for it in items:
        ids += expand_item(it)
    return ids


def encodable(obj_id, delimiter):
    """An id the notation can carry: (anything up to and including the last delimiter) followed by
    a non-empty run of ASCII digits."""
    i = obj_id.rfind(delimiter)
    footer = obj_id if i == -1 else obj_id[i + len(delimiter):]
    return footer != '' and footer.isascii() and footer.isdigit()


# ------------------------------------------------------------------------ wrapped CTI strings
def cti_tokens(text):
    """Tokens of a CTI string value: "..." or triple-quoted, possibly on several lines."""
    if text.startswith('"""'):
        if not text.endswith('"""') or len(text) < 6:
            raise Malformed('unterminated triple-quoted string')
        body = text[3:-3]
    elif text.startswith('"') and text.endswith('"') and len(text) >= 2:
        body = text[1:-1]
        if '\n' in body:
            raise Malformed('newline inside a single-quoted string')
    else:
        raise Malformed('not a quoted CTI string: %r' % text[:40])
    if '"' in body:
        raise Malformed('quote inside the string body')
    return body.split()


def line_tokens(line):
    """Number of blank-separated tokens on one physical line (quote marks count as part of tokens)."""
    return len(line.split())


# ------------------------------------------------------------------------ string arguments of a CTI directive
_STRING_ARG = re.compile(r'(\w+)=("""[^"]*"""|"[^"]*")')


def cti_string_args(text):
    """Every `name=<quoted string>` argument of a written CTI directive, in order of appearance:
    (name, value text, lines, separator) where `lines` has one (physical line, value tokens) pair per
    physical line the value touches.  The physical line is the line of the directive from its first
    column (so the indentation and the `name=` in front of the value count) up to the end of the value on
    that line; the separator that follows the closing quotes (',' or ')') is returned apart and is not
    part of the last line.  `value tokens` is line_tokens() of the part of the value on that line."""
    out = []
    for m in _STRING_ARG.finditer(text):
        start = text.rfind('\n', 0, m.start()) + 1
        phys = text[start:m.end()].split('\n')
        val = m.group(2).split('\n')
        assert len(phys) == len(val)
        out.append((m.group(1), m.group(2), [(p, line_tokens(v)) for p, v in zip(phys, val)],
                    text[m.end():m.end() + 2]))
    return out
