"""Reference for C20: real roots of the van der Waals cubic by exact-arithmetic bisection, reduced
(corresponding-states) van der Waals isotherm, second virial coefficient.  No pMuTT import.

The cubic in the molar volume v at pressure P (Pa):  P v^3 - (P b + RT) v^2 + a v - a b = 0.
All physical roots lie in (b, inf) because f(b) = -RT b^2 < 0 and P(v) < 0 for v < b.
"""
from fractions import Fraction as Fr
import functools
import math


def _poly(P, b, RT, a):
    P, b, RT, a = Fr(P), Fr(b), Fr(RT), Fr(a)
    c3, c2, c1, c0 = P, -(P * b + RT), a, -a * b

    def f(v):
        return ((c3 * v + c2) * v + c1) * v + c0
    return f


def _bisect(f, lo, hi):
    """Root of f in [lo, hi] (Fractions, f(lo) and f(hi) of opposite sign) -> float."""
    flo = f(lo)
    if flo == 0:
        return float(lo)
    for _ in range(400):
        mid = (lo + hi) / 2
        fm = f(mid)
        if fm == 0:
            return float(mid)
        if (fm > 0) == (flo > 0):
            lo, flo = mid, fm
        else:
            hi = mid
        if float(lo) == float(hi):
            break
        # keep the rationals small: snap the bracket to 200 binary digits
        if mid.denominator.bit_length() > 400:
            lo = Fr(int(lo * (1 << 300)), 1 << 300)
            hi = Fr(int(hi * (1 << 300)) + 1, 1 << 300)
            flo = f(lo)
    return float((lo + hi) / 2)


def vdw_roots(a, b, RT, P):
    """Sorted real roots (> b) of the van der Waals cubic; P in Pa, RT in J/mol.

    Returns (roots, margin): margin is min |f| at the two stationary points relative to the
    size of the terms there; a small margin (< 1e-6) means a nearly double root (spinodal), where the
    number of real roots is not decidable in floating point.
    """
    f = _poly(P, b, RT, a)
    c2 = P * b + RT
    top = Fr(c2) / Fr(P) + Fr(b) + 1            # f(top) > 0: P v^2 (v - c2/P) dominates a(v - b) < ... see below
    while f(top) <= 0:
        top *= 2
    pts = [Fr(b)]
    margin = 1.0
    disc = c2 * c2 - 3.0 * P * a
    if disc > 0:
        s = math.sqrt(disc)
        v1, v2 = (c2 - s) / (3.0 * P), (c2 + s) / (3.0 * P)
        for v in (v1, v2):
            if b < v < float(top):
                pts.append(Fr(v))
                size = abs(P * v ** 3) + abs(c2 * v * v) + abs(a * v) + abs(a * b)
                margin = min(margin, abs(float(f(Fr(v)))) / size)
    pts.append(top)
    pts.sort()
    roots = []
    for lo, hi in zip(pts, pts[1:]):
        flo, fhi = f(lo), f(hi)
        if flo == 0:
            roots.append(float(lo))
        elif (flo < 0) != (fhi < 0) and fhi != 0:
            roots.append(_bisect(f, lo, hi))
    if f(pts[-1]) == 0:
        roots.append(float(pts[-1]))
    return sorted(roots), margin


def reduced_pressure(tr, vr):
    """Law of corresponding states for a van der Waals fluid: P/Pc as a function of T/Tc, V/Vc."""
    return 8.0 * tr / (3.0 * vr - 1.0) - 3.0 / (vr * vr)


def second_virial(a, b, RT):
    return b - a / RT


# van der Waals constants of real gases (CRC Handbook): a in Pa m6/mol2, b in m3/mol
GASES = {
    'He': (0.00346, 2.38e-5), 'H2': (0.02452, 2.65e-5), 'N2': (0.1370, 3.87e-5), 'CO2': (0.3658, 4.29e-5),
    'H2O': (0.5537, 3.05e-5), 'NH3': (0.4225, 3.71e-5), 'C3H8': (0.939, 9.05e-5), 'SF6': (0.7857, 8.79e-5),
}
BOX_A = (0.003, 3.0)
BOX_B = (1e-5, 2e-4)


# ---------------------------------------------------------------------------------------------------------------
# Reference value of every documented getter call (used for calling conventions and object histories)
@functools.lru_cache(maxsize=None)
def roots_memo(a, b, rt, p_pa):
    """vdw_roots, memoised (the reference is a pure function of its arguments); roots as a tuple."""
    roots, margin = vdw_roots(a, b, rt, p_pa)
    return tuple(roots), margin


def getter_value(eos, a, b, R, getter, kw):
    """Reference value of getter(**kw) with the documented defaults filled in.

    Returns (expected, rtol, atol) or None when the number of real roots is not decidable (nearly double root).
    Units as documented: T / K, P / bar, V / m3, n / mol."""
    T = float(kw.get('T', 298.15))
    P = float(kw.get('P', 1.0))
    V = float(kw.get('V', R * 298.15 / 1e5))
    n = float(kw.get('n', 1.0))
    gp = bool(kw.get('gas_phase', True))
    if eos == 'ideal':
        if getter == 'get_V':
            return n * R * T / (P * 1e5), 1e-12, 0.0
        if getter == 'get_P':
            return n * R * T / V / 1e5, 1e-12, 0.0
        if getter == 'get_T':
            return P * 1e5 * V / (n * R), 1e-12, 0.0
        if getter == 'get_n':
            return P * 1e5 * V / (R * T), 1e-12, 0.0
        raise ValueError(getter)
    if getter in ('get_Vm', 'get_V', 'get_n'):
        roots, margin = roots_memo(a, b, R * T, P * 1e5)
        if margin < 1e-6:
            return None
        vm = roots[-1] if gp else roots[0]
        if getter == 'get_Vm':
            return vm, 1e-8, 0.0
        if getter == 'get_V':
            return n * vm, 1e-8, 0.0
        return V / vm, 1e-8, 0.0
    if getter == 'get_P':
        vm = V / n
        return (R * T / (vm - b) - a / vm ** 2) / 1e5, 0.0, 1e-12 * (abs(R * T / (vm - b)) + abs(a / vm ** 2)) / 1e5
    if getter == 'get_T':
        vm = V / n
        return (P * 1e5 + a / vm ** 2) * (vm - b) / R, 1e-12, 0.0
    if getter == 'get_Vc':
        return 3.0 * n * b, 1e-12, 0.0
    if getter == 'get_Tc':
        return 8.0 * a / (27.0 * b * R), 1e-12, 0.0
    if getter == 'get_Pc':
        return a / (27.0 * b * b) / 1e5, 1e-12, 0.0
    raise ValueError(getter)


def from_critical_ab(tc, pc, R):
    """(a, b) of the van der Waals fluid whose critical point is Tc / K, Pc / bar."""
    return 27.0 * (R * tc) ** 2 / (64.0 * pc * 1e5), R * tc / (8.0 * pc * 1e5)
