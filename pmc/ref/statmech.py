"""Textbook closed forms for the statistical-mechanical modes (reference model for C01).

Written from Sandler (Applied Statistical Thermodynamics), McQuarrie, Grimme (2012, quasi-RRHO
entropy) and Li et al. (2015, quasi-RRHO enthalpy), independently of pmutt.statmech; it shares
only pMuTT's *constants* so that constant accuracy is C12's business, not C01's.
All quantities are dimensionless (U/RT, S/R, ...).
"""
import numpy as np
from scipy.integrate import quad


def _k():
    from pmutt import constants as c
    return dict(h=c.h('J s'), kb=c.kb('J/K'), cc=c.c('cm/s'), Na=c.Na, kbe=c.kb('eV/K'),
                Re=c.R('eV/K'), R=c.R('J/mol/K'))


def theta(w):
    k = _k()
    return np.asarray(w, float) * k['cc'] * k['h'] / k['kb']


def valid_wavenumbers(w, substitute=None):
    out = []
    for v in w:
        if v > 0:
            out.append(float(v))
        elif substitute is not None:
            out.append(float(substitute))
    return np.array(out, float)


def harmonic(w, T, substitute=None, include_ZPE=True):
    w = valid_wavenumbers(w, substitute)
    k = _k()
    x = theta(w) / T
    em = np.exp(-x)
    U = float(np.sum(x / 2 + x * em / (1 - em)))
    Cv = float(np.sum(x ** 2 * em / (1 - em) ** 2))
    S = float(np.sum(x * em / (1 - em) - np.log1p(-em)))
    if include_ZPE:
        q = float(np.prod(np.exp(-x / 2) / (1 - em)))
    else:
        q = float(np.prod(1 / (1 - em)))
    zpe = float(0.5 * k['kbe'] * np.sum(theta(w)))
    return dict(q=q, U=U, H=U, Cv=Cv, Cp=Cv, S=S, F=U - S, G=U - S, ZPE=zpe)


def einstein(th, u, T):
    k = _k()
    x = th / T
    em = np.exp(-x)
    zpe = u + 1.5 * th * k['kbe']
    U = zpe / (k['kbe'] * T) + 3 * x * em / (1 - em)
    Cv = 3 * x ** 2 * em / (1 - em) ** 2
    S = 3 * (x * em / (1 - em) - np.log1p(-em))
    return dict(U=U, H=U, Cv=Cv, Cp=Cv, S=S, F=U - S, G=U - S, ZPE=zpe)


def D3(x):
    return 3 / x ** 3 * quad(lambda t: t ** 3 / np.expm1(t), 0, x, epsabs=1e-13, epsrel=1e-13)[0]


def debye(th, u, T):
    k = _k()
    x = th / T
    zpe = u + 9 / 8 * k['Re'] * th
    d3 = D3(x)
    U = zpe / (k['kbe'] * T) + 3 * d3
    S = 4 * d3 - 3 * np.log1p(-np.exp(-x))
    Cv = 3 * (4 * d3 - 3 * x / np.expm1(x))
    return dict(U=U, H=U, Cv=Cv, Cp=Cv, S=S, F=U - S, G=U - S, ZPE=zpe)


def qrrho(w, T, Bav=1e-44, v0=100., alpha=4, substitute=None):
    k = _k()
    w = valid_wavenumbers(w, substitute)
    x = theta(w) / T
    em = np.exp(-x)
    wt = 1 / (1 + (v0 / w) ** alpha)                      # Head-Gordon damping
    mu = k['h'] / (8 * np.pi ** 2 * w * k['cc'])          # moment of inertia of a free rotor of that frequency
    mup = mu * Bav / (mu + Bav)
    Sho = x * em / (1 - em) - np.log1p(-em)
    Sfr = 0.5 + 0.5 * np.log(8 * np.pi ** 3 * mup * k['kb'] * T / k['h'] ** 2)
    Uho = x * (0.5 + em / (1 - em))
    Cho = x ** 2 * em / (1 - em) ** 2
    S = float(np.sum(wt * Sho + (1 - wt) * Sfr))
    U = float(np.sum(wt * Uho + (1 - wt) * 0.5))
    Cv = float(np.sum(wt * Cho + (1 - wt) * 0.5))
    zpe = float(0.5 * k['kbe'] * np.dot(theta(w), wt))
    return dict(U=U, H=U, Cv=Cv, Cp=Cv, S=S, F=U - S, G=U - S, ZPE=zpe)


def rotor(geom, sigma, thr, T):
    if geom == 'monatomic':
        return dict(q=1., U=0., H=0., Cv=0., Cp=0., S=0., F=0., G=0.)
    if geom == 'linear':
        q = T / (sigma * thr[0])
        return dict(q=q, U=1., H=1., Cv=1., Cp=1., S=np.log(q) + 1., F=-np.log(q), G=-np.log(q))
    q = np.sqrt(np.pi) / sigma * np.sqrt(T ** 3 / np.prod(thr))
    return dict(q=q, U=1.5, H=1.5, Cv=1.5, Cp=1.5, S=np.log(q) + 1.5, F=-np.log(q), G=-np.log(q))


def trans(n, M, T, P):
    """Free translation in n dimensions; molecular volume kT/P computed as (R/Na)T/P as the
    documentation writes it (kb and R/Na differ by 8e-9 in pMuTT's tables)."""
    k = _k()
    m = M * 1e-3 / k['Na']
    V = (k['R'] / k['Na']) * T / (P * 1e5)
    lam = (2 * np.pi * m * k['kb'] * T / k['h'] ** 2) ** (n / 2)
    q = lam * V
    S = np.log(q) + n / 2 + 1
    return dict(q=q, U=n / 2, H=n / 2 + 1, Cv=n / 2, Cp=n / 2 + 1, S=S, F=n / 2 - S, G=n / 2 + 1 - S)


def ground_state(E, spin, T):
    k = _k()
    U = E / (k['kbe'] * T)
    S = np.log(2 * spin + 1)
    return dict(U=U, H=U, Cv=0., Cp=0., S=S, F=U - S, G=U - S)


POINT_GROUPS = {'C1': 1, 'Cs': 1, 'C2': 2, 'C2v': 2, 'C3v': 3, 'Cinfv': 1, 'D2h': 4, 'D3h': 6,
                'D5h': 10, 'Dinfh': 2, 'D3d': 6, 'Td': 12, 'Oh': 24}
