"""Independent reference for ideal-gas chemical equilibrium at fixed T, P (property C16).

Problem (convex):   minimise  G(n)/RT = sum_i n_i (g_i + ln(n_i P / N)),  N = sum_i n_i
                    subject to A^T n = b,  n >= 0
with A[i, j] = atoms of element j in species i, b = A^T feed, P in units of the standard-state
pressure (1 bar for NASA polynomials) and g_i = G_i(T)/RT of the pure species.

Method: element potentials (Gordon & McBride, NASA RP-1311, "Gibbs iteration"): Newton iteration
in (ln n_i, ln N) reduced to a (rank+1)-dimensional linear system for the element potentials.
Degeneracies are removed first, independently of any optimiser:
  * linearly dependent element columns are dropped (rank of A),
  * species that the atom balance forces to zero (max n_i over the polytope is 0, one LP each)
    are fixed at zero; the remaining polytope has a strictly positive point, so the minimiser is
    interior and the element potentials are finite.
The result certifies itself: solve() raises RefError unless the KKT conditions hold
(stationarity |g_i + ln(x_i P) - sum_j A_ij pi_j| <= 1e-7, and <= 1e-11 when weighted by x_i, on
the free species; atom balance <= 1e-11 relative).  Because the problem is convex a KKT point is the global minimum.

Nothing here imports pMuTT.  g_i is evaluated from NASA-7 coefficients with the textbook
expression (Burcat):  G/RT = a1 (1 - ln T) - a2 T/2 - a3 T^2/6 - a4 T^3/12 - a5 T^4/20 + a6/T - a7.
"""
import math

import numpy as np

BAR_PER_ATM = 1.01325      # exact by definition of the standard atmosphere


class RefError(Exception):
    pass


# ------------------------------------------------------------------ NASA-7, textbook form
def nasa7_GoRT(a, T):
    a1, a2, a3, a4, a5, a6, a7 = [float(v) for v in a]
    h = a1 + a2 * T / 2 + a3 * T ** 2 / 3 + a4 * T ** 3 / 4 + a5 * T ** 4 / 5 + a6 / T
    s = a1 * math.log(T) + a2 * T + a3 * T ** 2 / 2 + a4 * T ** 3 / 3 + a5 * T ** 4 / 4 + a7
    return h - s


def nasa7_select(T, T_low, T_mid, T_high, a_low, a_high):
    """Low-range coefficients up to and including T_mid (Chemkin convention)."""
    return a_low if T <= T_mid else a_high


# ------------------------------------------------------------------ Gibbs function
def gibbs(n, g, P):
    """G/RT of composition n (terms with n_i == 0 contribute 0)."""
    n = np.asarray(n, dtype=float)
    g = np.asarray(g, dtype=float)
    N = float(np.sum(n))
    m = n > 0
    return float(np.sum(n[m] * (g[m] + np.log(n[m] * P / N))))


def chem_potentials(n, g, P):
    n = np.asarray(n, dtype=float)
    return np.asarray(g, dtype=float) + np.log(n * P / np.sum(n))


# ------------------------------------------------------------------ degeneracy removal
def independent_columns(A, tol=1e-9):
    """Greedy selection of linearly independent columns of A (exact for small integer matrices)."""
    A = np.asarray(A, dtype=float)
    keep = []
    for j in range(A.shape[1]):
        trial = A[:, keep + [j]]
        if np.linalg.matrix_rank(trial, tol=tol) == len(keep) + 1:
            keep.append(j)
    return keep


def forced_zero(A, b):
    """Indices of species whose amount is 0 in every non-negative solution of A^T n = b."""
    from scipy.optimize import linprog
    A = np.asarray(A, dtype=float)
    b = np.asarray(b, dtype=float)
    ns = A.shape[0]
    scale = float(np.max(np.abs(b))) or 1.0
    out = []
    for i in range(ns):
        c = np.zeros(ns)
        c[i] = -1.0
        r = linprog(c, A_eq=A.T, b_eq=b / scale, bounds=[(0, None)] * ns, method='highs')
        if r.status != 0:
            raise RefError('LP for species %d: %s' % (i, r.message))
        if -r.fun <= 1e-11:
            out.append(i)
    return out


def nullspace_reactions(A):
    """Integer-free basis of reactions nu with nu^T A = 0 (rows), from the SVD, then reduced to
    an echelon form so that each reaction has few participants.  Returns array (n_rxn, ns)."""
    A = np.asarray(A, dtype=float)
    ns = A.shape[0]
    u, s, vt = np.linalg.svd(A.T, full_matrices=True)
    rank = int(np.sum(s > 1e-9 * max(1.0, s[0] if len(s) else 1.0)))
    N = vt[rank:].copy()               # (ns-rank, ns), N @ A = 0
    # reduced row echelon form (partial pivoting) for sparse, well-scaled reactions
    r = 0
    for col in range(ns):
        if r >= N.shape[0]:
            break
        p = r + int(np.argmax(np.abs(N[r:, col])))
        if abs(N[p, col]) < 1e-9:
            continue
        N[[r, p]] = N[[p, r]]
        N[r] /= N[r, col]
        for k in range(N.shape[0]):
            if k != r:
                N[k] -= N[k, col] * N[r]
        r += 1
    N[np.abs(N) < 1e-12] = 0.0
    return N


# ------------------------------------------------------------------ solver
def _newton(A, b, g, P, tol, maxit):
    ns, ne = A.shape
    # start: uniform positive composition scaled to the amount of atoms
    n = np.full(ns, float(np.sum(b)) / max(1.0, float(np.sum(A))))
    N = float(np.sum(n))
    pi = np.zeros(ne)
    for it in range(maxit):
        mu = g + np.log(n * P / N)
        An = A * n[:, None]
        M = np.zeros((ne + 1, ne + 1))
        r = np.zeros(ne + 1)
        M[:ne, :ne] = A.T @ An
        col = An.sum(axis=0)
        M[:ne, ne] = col
        M[ne, :ne] = col
        M[ne, ne] = float(np.sum(n)) - N
        r[:ne] = b - col + An.T @ mu
        r[ne] = N - float(np.sum(n)) + float(np.sum(n * mu))
        sol = np.linalg.solve(M, r)      # LinAlgError -> decimal fallback in solve()
        pi = sol[:ne]
        dlnN = float(sol[ne])
        dlnn = A @ pi + dlnN - mu
        # damping as in CEA: limit the step of the major species and of the total
        mx = max(5.0 * abs(dlnN), float(np.max(np.abs(dlnn))))
        lam = 1.0 if mx <= 2.0 else 2.0 / mx
        n = n * np.exp(lam * dlnn)
        N = N * math.exp(lam * dlnN)
        bal = float(np.max(np.abs(A.T @ n - b))) / float(np.max(b))
        # CEA convergence test: corrections weighted by the amounts (ln n of a species with
        # mole fraction x is only determined to ~ eps/x by the atom balance)
        if lam == 1.0 and float(np.max(n * np.abs(dlnn))) / N < tol and abs(dlnN) < tol \
                and bal < 10 * tol:
            return n, pi, it + 1
    raise RefError('element-potential iteration did not converge in %d steps' % maxit)


def _newton_decimal(A, b, g, P, digits=90, maxit=3000):
    """The same iteration in decimal arithmetic with `digits` significant digits.

    Needed when the major species span fewer directions than there are elements: the element-
    potential matrix then has eigenvalues of the order of the trace mole fractions (down to
    exp(-60)), beyond double precision.  Plain Gaussian elimination with partial pivoting."""
    import decimal
    D = decimal.Decimal
    ctx = decimal.Context(prec=digits, Emin=-10 ** 9, Emax=10 ** 9)
    ns, ne = A.shape
    Ad = [[D(int(round(float(v)))) if float(v) == round(float(v)) else D(repr(float(v))) for v in row]
          for row in A]
    bd = [ctx.create_decimal(repr(float(v))) for v in b]
    gd = [ctx.create_decimal(repr(float(v))) for v in g]
    lnP = ctx.ln(ctx.create_decimal(repr(float(P))))
    tot = sum(sum(r) for r in Ad)
    n = [ctx.divide(sum(bd), max(D(1), tot))] * ns
    N = sum(n)
    tol = D(10) ** (-(digits // 2))
    maxb = max(bd)

    def gauss(M, r):
        m = len(r)
        M = [row[:] + [r[i]] for i, row in enumerate(M)]
        for c in range(m):
            p = max(range(c, m), key=lambda k: abs(M[k][c]))
            if M[p][c] == 0:
                raise RefError('singular element-potential matrix (decimal)')
            M[c], M[p] = M[p], M[c]
            for k in range(c + 1, m):
                f = ctx.divide(M[k][c], M[c][c])
                if f != 0:
                    M[k] = [ctx.subtract(x, ctx.multiply(f, y)) for x, y in zip(M[k], M[c])]
        x = [D(0)] * m
        for c in reversed(range(m)):
            acc = M[c][m]
            for k in range(c + 1, m):
                acc = ctx.subtract(acc, ctx.multiply(M[c][k], x[k]))
            x[c] = ctx.divide(acc, M[c][c])
        return x

    with decimal.localcontext(ctx):
        for it in range(maxit):
            lnN = N.ln()
            mu = [gd[i] + n[i].ln() + lnP - lnN for i in range(ns)]
            M = [[sum(Ad[i][j] * Ad[i][k] * n[i] for i in range(ns)) for k in range(ne)] + [D(0)]
                 for j in range(ne)]
            col = [sum(Ad[i][j] * n[i] for i in range(ns)) for j in range(ne)]
            sn = sum(n)
            for j in range(ne):
                M[j][ne] = col[j]
            M.append(col[:] + [sn - N])
            r = [bd[j] - col[j] + sum(Ad[i][j] * n[i] * mu[i] for i in range(ns)) for j in range(ne)]
            r.append(N - sn + sum(n[i] * mu[i] for i in range(ns)))
            sol = gauss(M, r)
            pi, dlnN = sol[:ne], sol[ne]
            dlnn = [sum(Ad[i][j] * pi[j] for j in range(ne)) + dlnN - mu[i] for i in range(ns)]
            mx = max(5 * abs(dlnN), max(abs(v) for v in dlnn))
            lam = D(1) if mx <= 2 else D(2) / mx
            n = [n[i] * (lam * dlnn[i]).exp() for i in range(ns)]
            N = N * (lam * dlnN).exp()
            bal = max(abs(sum(Ad[i][j] * n[i] for i in range(ns)) - bd[j]) for j in range(ne)) / maxb
            if lam == 1 and max(abs(v) for v in dlnn) < tol and abs(dlnN) < tol and bal < tol:
                return (np.array([float(v) for v in n]), np.array([float(v) for v in pi]), it + 1)
    raise RefError('decimal element-potential iteration did not converge in %d steps' % maxit)


def _certificate(Ar, br, gf, P, nf, pi):
    """'' when (nf, pi) is a KKT point of the reduced problem, else the reason."""
    if not (np.all(np.isfinite(nf)) and np.all(nf > 0) and np.all(np.isfinite(pi))):
        return 'non-finite or non-positive amounts'
    xf = nf / nf.sum()
    stat = gf + np.log(xf * P) - Ar @ pi
    if float(np.max(np.abs(stat))) > 1e-7 or float(np.max(xf * np.abs(stat))) > 1e-11:
        return 'reference KKT stationarity %.3g (weighted %.3g)' % (
            float(np.max(np.abs(stat))), float(np.max(xf * np.abs(stat))))
    if float(np.max(np.abs(Ar.T @ nf - br))) > 1e-11 * float(np.max(br)):
        return 'reference atom balance'
    return ''


def _certified(Ar, br, gf, P, nf, pi):
    return _certificate(Ar, br, gf, P, nf, pi) == ''


def solve(A, b, g, P, tol=1e-12, maxit=500):
    """Equilibrium amounts.

    A (ns, ne) element matrix, b (ne,) element totals (>= 0, not all zero), g (ns,) G_i/RT,
    P pressure / standard pressure.  Returns dict(n, pi, G, iterations, free, cols).
    """
    A = np.asarray(A, dtype=float)
    b = np.asarray(b, dtype=float)
    g = np.asarray(g, dtype=float)
    ns = A.shape[0]
    if np.any(b < 0) or not np.any(b > 0):
        raise RefError('bad element totals %r' % (b,))
    zero = set(forced_zero(A, b))
    free = [i for i in range(ns) if i not in zero]
    if not free:
        raise RefError('empty polytope')
    Af = A[free]
    cols = [j for j in independent_columns(Af)]
    Ar = Af[:, cols]
    br = b[cols]
    # drop element rows that no free species contains (b must be 0 there)
    nz = [k for k in range(len(cols)) if np.any(Ar[:, k] != 0)]
    Ar, br, cols = Ar[:, nz], br[nz], [cols[k] for k in nz]
    if len(free) == Ar.shape[1] and np.linalg.matrix_rank(Ar) == len(free):
        nf = np.linalg.solve(Ar.T, br)          # composition fixed by the atom balance alone
        pi = np.linalg.solve(Ar, g[free] + np.log(nf * P / nf.sum()))
        its = 0
        method = 'linear'
    else:
        method = 'float64'
        try:
            nf, pi, its = _newton(Ar, br, g[free], P, tol, maxit)
            ok = _certified(Ar, br, g[free], P, nf, pi)
        except (RefError, np.linalg.LinAlgError, FloatingPointError, OverflowError):
            ok = False
        if not ok:
            method = 'decimal'
            nf, pi, its = _newton_decimal(Ar, br, g[free], P)
    n = np.zeros(ns)
    n[free] = nf
    # certificate: KKT on the free species, atom balance on all elements
    if not (np.all(np.isfinite(n)) and np.all(nf > 0)):
        raise RefError('non-positive reference amounts')
    why = _certificate(Ar, br, g[free], P, nf, pi)
    if why:
        raise RefError(why)
    bal = np.abs(A.T @ n - b)
    if float(np.max(bal)) > 1e-11 * float(np.max(b)):
        raise RefError('reference atom balance %.3g' % float(np.max(bal)))
    return dict(n=n, pi=pi, G=gibbs(n, g, P), iterations=its, free=free, cols=cols, method=method,
                forced_zero=sorted(zero))


# ------------------------------------------------------------------ closed forms (2 species)
def closed_form_two(A, b, g, P):
    """Closed-form equilibrium for a two-species network whose formulas are proportional:
    isomers (X <=> Y) or a dimerisation (2 X <=> X2).  Returns n or None if not applicable."""
    A = np.asarray(A, dtype=float)
    b = np.asarray(b, dtype=float)
    if A.shape[0] != 2:
        return None
    j = int(np.argmax(A[0]))
    if A[0, j] == 0 or A[1, j] == 0:
        return None
    k = A[1, j] / A[0, j]
    if not np.allclose(A[1], k * A[0], rtol=0, atol=1e-12):
        return None
    if k < 1:                      # make species "lo" the monomer
        lo, hi, k = 1, 0, 1.0 / k
    else:
        lo, hi = 0, 1
    units = b[j] / A[lo, j]        # amount of monomer units
    n = np.zeros(2)
    if abs(k - 1.0) < 1e-12:       # isomerisation: x_hi/x_lo = exp(-(g_hi-g_lo)), no P dependence
        d = g[hi] - g[lo]
        xlo = 1.0 / (1.0 + math.exp(-d))
        xhi = 1.0 / (1.0 + math.exp(d))
        n[lo], n[hi] = units * xlo, units * xhi
        return n
    if abs(k - 2.0) < 1e-12:       # 2 X <=> X2 :  x2 = K P x1^2,  x1 + x2 = 1
        lnKP = -(g[hi] - 2.0 * g[lo]) + math.log(P)
        if lnKP > 600:
            return None
        KP = math.exp(lnKP)
        x1 = 2.0 / (1.0 + math.sqrt(1.0 + 4.0 * KP))
        x2 = KP * x1 * x1
        N = units / (x1 + 2.0 * x2)
        n[lo], n[hi] = N * x1, N * x2
        return n
    return None
