"""Reference data for C12 (unit tables): SI definitions of every unit, an independent periodic
table, and two small readers (source literals of a dict inside a function; RST tables of a
docstring).  Nothing here imports pMuTT.

Values: BIPM SI brochure (9th ed.) / NIST SP 811 for the defined units; CODATA 2018 for the
measured ones (elementary charge, Hartree, atomic mass constant, Avogadro).  pMuTT tabulates the
CODATA 2014 set; the two sets differ by <= 2e-8 relative, which is what MEASURED_FLOOR allows.
"""
import ast
import inspect
import re
import textwrap

E_CHARGE = 1.602176634e-19          # J per eV (exact since 2019)
HARTREE = 4.3597447222071e-18       # J
AMU = 1.66053906660e-27             # kg
N_A = 6.02214076e23                 # 1/mol (exact since 2019)

EXACT_FLOOR = 1e-12
MEASURED_FLOOR = 1e-7

# type -> (SI base unit, {unit: (value of ONE such unit in the base unit, class)})
#   class 'exact'    : the definition is a finite decimal / simple rational the table can hold exactly
#   class 'rounded'  : exact definition, but the table necessarily stores a rounded decimal
#   class 'measured' : CODATA quantity
SI = {
    'energy': ('J', {
        'J': (1.0, 'exact'), 'kJ': (1.0e3, 'exact'), 'eV': (E_CHARGE, 'measured'),
        'cal': (4.184, 'rounded'), 'kcal': (4184.0, 'rounded'),       # thermochemical calorie
        'L atm': (101.325, 'rounded'), 'Eh': (HARTREE, 'measured'), 'Ha': (HARTREE, 'measured')}),
    'energy/amount': ('J/mol', {
        'J/mol': (1.0, 'exact'), 'kJ/mol': (1.0e3, 'exact'), 'cal/mol': (4.184, 'rounded'),
        'kcal/mol': (4184.0, 'rounded'),
        'eV/molecule': (E_CHARGE * N_A, 'measured'), 'eV/particle': (E_CHARGE * N_A, 'measured'),
        'Eh/molecule': (HARTREE * N_A, 'measured'), 'Eh/particle': (HARTREE * N_A, 'measured'),
        'Ha/molecule': (HARTREE * N_A, 'measured'), 'Ha/particle': (HARTREE * N_A, 'measured')}),
    'time': ('s', {
        'ps': (1e-12, 'exact'), 'ns': (1e-9, 'exact'), 'ms': (1e-3, 'exact'), 's': (1.0, 'exact'),
        'min': (60.0, 'exact'), 'hr': (3600.0, 'exact'), 'day': (86400.0, 'exact'),
        'yr': (365.25 * 86400.0, 'exact')}),                          # Julian year
    'amount': ('mol', {
        'mol': (1.0, 'exact'), 'molecule': (1.0 / N_A, 'measured'), 'molec': (1.0 / N_A, 'measured'),
        'particle': (1.0 / N_A, 'measured')}),
    'temp': ('K', {}),
    'length': ('m', {
        'm': (1.0, 'exact'), 'cm': (1e-2, 'exact'), 'nm': (1e-9, 'exact'), 'km': (1e3, 'exact'),
        'inch': (0.0254, 'rounded'), 'ft': (0.3048, 'rounded'), 'mile': (1609.344, 'exact'),
        'A': (1e-10, 'exact')}),
    'area': ('m2', {
        'm2': (1.0, 'exact'), 'cm2': (1e-4, 'exact'), 'A2': (1e-20, 'exact'), 'km2': (1e6, 'exact'),
        'inch2': (0.0254 ** 2, 'rounded'), 'ft2': (0.3048 ** 2, 'rounded')}),
    'volume': ('m3', {
        'm3': (1.0, 'exact'), 'cm3': (1e-6, 'exact'), 'mL': (1e-6, 'exact'), 'L': (1e-3, 'exact'),
        'inch3': (0.0254 ** 3, 'rounded'), 'ft3': (0.3048 ** 3, 'rounded')}),
    'mass': ('kg', {
        'kg': (1.0, 'exact'), 'g': (1e-3, 'exact'), 'amu': (AMU, 'measured'),
        'lbs': (0.45359237, 'rounded')}),
    'pressure': ('Pa', {
        'Pa': (1.0, 'exact'), 'kPa': (1e3, 'exact'), 'MPa': (1e6, 'exact'), 'atm': (101325.0, 'rounded'),
        'bar': (1e5, 'exact'), 'mmHg': (133.322387415, 'rounded'), 'torr': (101325.0 / 760.0, 'rounded'),
        'psi': (6894.757293168, 'rounded')}),
}
TYPES = list(SI)

# which area / volume unit belongs to which length unit (power 2 / 3), and the named volumes
POWERS = {'m2': ('m', 2), 'cm2': ('cm', 2), 'A2': ('A', 2), 'km2': ('km', 2), 'inch2': ('inch', 2),
          'ft2': ('ft', 2), 'm3': ('m', 3), 'cm3': ('cm', 3), 'inch3': ('inch', 3), 'ft3': ('ft', 3)}
NAMED_VOLUMES = {'mL': ('cm', 3, 1.0), 'L': ('cm', 3, 1000.0)}      # mL = cm^3, L = dm^3 = 1000 cm^3
# multiples within a type: (unit, of-unit, exact ratio unit/of-unit)
PREFIXED = [('kJ', 'J', 1e3), ('kcal', 'cal', 1e3), ('kJ/mol', 'J/mol', 1e3), ('kcal/mol', 'cal/mol', 1e3),
            ('kPa', 'Pa', 1e3), ('MPa', 'Pa', 1e6), ('km', 'm', 1e3), ('cm', 'm', 1e-2), ('nm', 'm', 1e-9),
            ('A', 'm', 1e-10), ('g', 'kg', 1e-3), ('ms', 's', 1e-3), ('ns', 's', 1e-9), ('ps', 's', 1e-12),
            ('km2', 'm2', 1e6), ('cm2', 'm2', 1e-4), ('cm3', 'm3', 1e-6), ('min', 's', 60.0),
            ('hr', 'min', 60.0), ('day', 'hr', 24.0), ('ft', 'inch', 12.0), ('mile', 'ft', 5280.0),
            ('bar', 'kPa', 100.0)]
ALIASES = [('Eh', 'Ha'), ('Eh/molecule', 'Ha/molecule'), ('Eh/particle', 'Ha/particle'),
           ('eV/molecule', 'eV/particle'), ('Eh/molecule', 'Eh/particle'), ('molecule', 'molec'),
           ('molecule', 'particle'), ('mL', 'cm3')]
# energy/amount = energy / amount
PER_AMOUNT = {'J/mol': ('J', 'mol'), 'kJ/mol': ('kJ', 'mol'), 'cal/mol': ('cal', 'mol'),
              'kcal/mol': ('kcal', 'mol'), 'eV/molecule': ('eV', 'molecule'),
              'Eh/molecule': ('Eh', 'molecule'), 'Ha/molecule': ('Ha', 'molecule'),
              'eV/particle': ('eV', 'molecule'), 'Eh/particle': ('Eh', 'molecule'),
              'Ha/particle': ('Ha', 'molecule')}
# composite energies = volume x pressure
COMPOSITE = {'L atm': ('L', 'atm')}


def temp_ref(x, a, b):
    """Textbook temperature conversion through kelvin."""
    if a == 'K':
        k = x
    elif a == 'C':
        k = x + 273.15
    elif a == 'F':
        k = (x + 459.67) * 5.0 / 9.0
    elif a == 'R':
        k = x * 5.0 / 9.0
    else:
        raise KeyError(a)
    if b == 'K':
        return k
    if b == 'C':
        return k - 273.15
    if b == 'F':
        return k * 9.0 / 5.0 - 459.67
    if b == 'R':
        return k * 9.0 / 5.0
    raise KeyError(b)


# ------------------------------------------------------------------------------ literals
_NUM = re.compile(r'^[+-]?(\d*\.?\d*)(?:[eE]([+-]?\d+))?$')


def literal_ulp(text):
    """Relative size of one unit in the last written digit of a decimal literal ('0.239006' ->
    1/239006).  Powers of ten (mantissa 1) are exact -> 0.0."""
    m = _NUM.match(text.strip().replace('_', ''))
    if not m or not m.group(1).strip('.'):
        raise ValueError('not a decimal literal: %r' % text)
    mant = m.group(1)
    if '.' in mant:
        ip, fp = mant.split('.')
    else:
        ip, fp = mant, ''
    digits = (ip + fp).lstrip('0')
    if not fp:
        digits = digits.rstrip('0') or digits          # 1550 / 100: trailing zeros of an integer
    if digits.strip('0') == '1' and digits.rstrip('0') == '1':
        return 0.0
    return 1.0 / int(digits)


def repr_ulp(x):
    """literal_ulp of the shortest repr of a float (for values a table returns verbatim)."""
    return literal_ulp(repr(float(x)))


def dict_literals(func, dict_name):
    """{key: [source text of every numeric literal in the value expression]} for the dict literal
    assigned to `dict_name` inside `func` (or at module level of func's module)."""
    src = textwrap.dedent(inspect.getsource(func))
    out = _find_dict(ast.parse(src), src, dict_name)
    if out is None:
        mod = inspect.getmodule(func)
        src = inspect.getsource(mod)
        out = _find_dict(ast.parse(src), src, dict_name)
    return out


def _find_dict(tree, src, dict_name):
    for node in ast.walk(tree):
        if isinstance(node, ast.Assign) and isinstance(node.value, ast.Dict) and any(
                isinstance(t, ast.Name) and t.id == dict_name for t in node.targets):
            out = {}
            for k, v in zip(node.value.keys, node.value.values):
                if not (isinstance(k, ast.Constant) and isinstance(k.value, str)):
                    continue
                lits = []
                for sub in ast.walk(v):
                    if isinstance(sub, ast.Constant) and isinstance(sub.value, (int, float)) \
                            and not isinstance(sub.value, bool):
                        lits.append(ast.get_source_segment(src, sub))
                out[k.value] = lits
            return out
    return None


def doc_tables(doc):
    """RST simple tables of a docstring -> list of tables, each a list of rows (list of cell
    strings, split on the column borders of the === ruler)."""
    lines = (doc or '').expandtabs().splitlines()
    tables, i = [], 0
    ruler = re.compile(r'^\s*=+(\s+=+)+\s*$')
    while i < len(lines):
        if ruler.match(lines[i]):
            spans = [(m.start(), m.end()) for m in re.finditer(r'=+', lines[i])]
            rows, rulers, j = [], 1, i + 1
            while j < len(lines) and rulers < 3:
                if ruler.match(lines[j]):
                    rulers += 1
                elif lines[j].strip():
                    ln = lines[j]
                    cells = []
                    for n, (a, b) in enumerate(spans):
                        end = spans[n + 1][0] if n + 1 < len(spans) else len(ln)
                        cells.append(ln[a:end].strip())
                    if rulers == 2:
                        rows.append(cells)
                else:
                    break
                j += 1
            if rows:
                tables.append(rows)
            i = j
        else:
            i += 1
    return tables


def printed_half_ulp(text):
    """Half a unit of the last printed digit of a decimal string, as an absolute number."""
    t = text.strip().replace('E', 'e')
    mant, _, ex = t.partition('e')
    dec = len(mant.split('.')[1]) if '.' in mant else 0
    return 0.5 * 10.0 ** (-dec + (int(ex) if ex else 0))


# --------------------------------------------------------------------------- periodic table
SYMBOLS = ('H He Li Be B C N O F Ne Na Mg Al Si P S Cl Ar K Ca Sc Ti V Cr Mn Fe Co Ni Cu Zn Ga Ge As '
           'Se Br Kr Rb Sr Y Zr Nb Mo Tc Ru Rh Pd Ag Cd In Sn Sb Te I Xe Cs Ba La Ce Pr Nd Pm Sm Eu Gd '
           'Tb Dy Ho Er Tm Yb Lu Hf Ta W Re Os Ir Pt Au Hg Tl Pb Bi Po At Rn Fr Ra Ac Th Pa U Np Pu Am '
           'Cm Bk Cf Es Fm Md No Lr Rf Db Sg Bh Hs Mt Ds Rg Cn Nh Fl Mc Lv Ts Og').split()
assert len(SYMBOLS) == 118
# systematic (pre-2016) names still used by tables of that age
LEGACY = {113: 'Uut', 115: 'Uup', 117: 'Uus', 118: 'Uuo'}


def symbols_of(z):
    """All symbols by which element z may be filed (modern first)."""
    out = [SYMBOLS[z - 1]]
    if z in LEGACY:
        out.append(LEGACY[z])
    return out


def z_of(symbol):
    if symbol in SYMBOLS:
        return SYMBOLS.index(symbol) + 1
    for z, s in LEGACY.items():
        if s == symbol:
            return z
    return None
