"""Textbook reference forms of the NASA-7, NASA-9 and Shomate polynomials (C02, C13).

Written from the defining equations (Gordon & McBride NASA RP-1311 for the 7- and
9-coefficient forms, NIST WebBook for Shomate), term by term, in plain Python floats.
Every function returns the list of *terms*; the value is math.fsum(terms) and
sum(|terms|) is the natural round-off scale of that value.

    NASA-7   Cp/R = a1 + a2 T + a3 T^2 + a4 T^3 + a5 T^4
             H/RT = a1 + a2 T/2 + a3 T^2/3 + a4 T^3/4 + a5 T^4/5 + a6/T
             S/R  = a1 ln T + a2 T + a3 T^2/2 + a4 T^3/3 + a5 T^4/4 + a7
    NASA-9   Cp/R = a1 T^-2 + a2 T^-1 + a3 + a4 T + a5 T^2 + a6 T^3 + a7 T^4
             H/RT = -a1 T^-2 + a2 ln T/T + a3 + a4 T/2 + a5 T^2/3 + a6 T^3/4 + a7 T^4/5 + a8/T
             S/R  = -a1 T^-2/2 - a2 T^-1 + a3 ln T + a4 T + a5 T^2/2 + a6 T^3/3 + a7 T^4/4 + a9
    Shomate  (t = T/1000, R in the fitting unit, H in 1000 x that unit)
             Cp   = A + B t + C t^2 + D t^3 + E/t^2
             H    = A t + B t^2/2 + C t^3/3 + D t^4/4 - E/t + F          (pMuTT: absolute, no "-H")
             S    = A ln t + B t + C t^2/2 + D t^3/3 - E/(2 t^2) + G
"""
import math


def nasa7_terms(a, T):
    a = [float(v) for v in a]
    T = float(T)
    cp = [a[0], a[1] * T, a[2] * T**2, a[3] * T**3, a[4] * T**4]
    h = [a[0], a[1] * T / 2., a[2] * T**2 / 3., a[3] * T**3 / 4., a[4] * T**4 / 5., a[5] / T]
    s = [a[0] * math.log(T), a[1] * T, a[2] * T**2 / 2., a[3] * T**3 / 3., a[4] * T**4 / 4., a[6]]
    return dict(CpoR=cp, HoRT=h, SoR=s)


def nasa9_terms(a, T):
    a = [float(v) for v in a]
    T = float(T)
    cp = [a[0] / T**2, a[1] / T, a[2], a[3] * T, a[4] * T**2, a[5] * T**3, a[6] * T**4]
    h = [-a[0] / T**2, a[1] * math.log(T) / T, a[2], a[3] * T / 2., a[4] * T**2 / 3.,
         a[5] * T**3 / 4., a[6] * T**4 / 5., a[7] / T]
    s = [-a[0] / T**2 / 2., -a[1] / T, a[2] * math.log(T), a[3] * T, a[4] * T**2 / 2.,
         a[5] * T**3 / 3., a[6] * T**4 / 4., a[8]]
    return dict(CpoR=cp, HoRT=h, SoR=s)


def shomate_terms(a, T, R):
    """R: gas constant in the fitting unit (the library's own table, see DESIGN 3.4)."""
    a = [float(v) for v in a]
    T = float(T)
    t = T / 1000.
    cp = [a[0] / R, a[1] * t / R, a[2] * t**2 / R, a[3] * t**3 / R, a[4] / t**2 / R]
    k = 1000. / (R * T)
    h = [a[0] * t * k, a[1] * t**2 / 2. * k, a[2] * t**3 / 3. * k, a[3] * t**4 / 4. * k,
         -a[4] / t * k, a[5] * k]
    s = [a[0] * math.log(t) / R, a[1] * t / R, a[2] * t**2 / 2. / R, a[3] * t**3 / 3. / R,
         -a[4] / (2. * t**2) / R, a[6] / R]
    return dict(CpoR=cp, HoRT=h, SoR=s)


def values(terms):
    """{'CpoR','HoRT','SoR','GoRT'} -> (value, round-off scale)."""
    out = {}
    for k, v in terms.items():
        out[k] = (math.fsum(v), math.fsum(abs(x) for x in v))
    out['GoRT'] = (out['HoRT'][0] - out['SoR'][0], out['HoRT'][1] + out['SoR'][1])
    return out


def terms_for(fam, a, T, R=None):
    if fam == 'nasa7':
        return nasa7_terms(a, T)
    if fam == 'nasa9':
        return nasa9_terms(a, T)
    if fam == 'shomate':
        return shomate_terms(a, T, R)
    raise ValueError(fam)


def containing(fam, segs, T):
    """Indices of the segments (ascending list of (T_lo, T_hi)) allowed to answer at T.

    NASA-7: the lower segment strictly below T_mid, the upper one from T_mid on (nothing outside
    [T_low, T_high]); NASA-9: every segment whose closed interval contains T (two on a shared
    boundary, none in a gap or outside); Shomate: its single segment.
    """
    T = float(T)
    if fam == 'nasa7':
        lo, mid, hi = float(segs[0][0]), float(segs[0][1]), float(segs[1][1])
        if T < lo or T > hi:
            return []
        return [1] if T >= mid else [0]
    return [k for k, (lo, hi) in enumerate(segs) if float(lo) <= T <= float(hi)]


# ------------------------------------------------------------------ conditions (C02, third round)
# A species may carry "misc models" whose contribution depends on keyword arguments of the getters:
#   gas species (GasPressureAdj):  S/R  -> S/R - ln(P / 1 bar)                      (ideal gas, P in bar)
#   coverage effect (piecewise linear excess enthalpy in kcal/mol, continuous, 0 at x = 0):
#                                  H/RT -> H/RT + Hex(x) / (R_kcal T)
#   entropy of formation:          S/R  -> S/R - sum_el n_el S_el/R                 (S_elements=True)
# Cp is unaffected by all three (none depends on T at fixed P, x), G = H - TS follows.
def cov_excess_H(intervals, slopes, x):
    """Excess enthalpy (kcal/mol) of a continuous piecewise-linear coverage effect at coverage x: the integral of
    the slope from 0 to x (slopes[k] applies from intervals[k] to intervals[k+1], the last one without end)."""
    x = float(x)
    terms = []
    for k, (lo, s) in enumerate(zip(intervals, slopes)):
        hi = float(intervals[k + 1]) if k + 1 < len(intervals) else float('inf')
        if x > lo:
            terms.append(float(s) * (min(x, hi) - float(lo)))
    return math.fsum(terms)


def conditioned(vals, T, lnP=0.0, Hex_oR=0.0, S_ele=0.0):
    """values() of the bare polynomial -> values under conditions.  lnP: ln(P/bar) for a species with a pressure
    model (0 otherwise); Hex_oR: excess enthalpy / R in K; S_ele: dimensionless entropy of the elements."""
    T = float(T)
    dH, dS = Hex_oR / T, -lnP - S_ele
    out = dict(vals)
    out['HoRT'] = (vals['HoRT'][0] + dH, vals['HoRT'][1] + abs(dH))
    out['SoR'] = (vals['SoR'][0] + dS, vals['SoR'][1] + abs(lnP) + abs(S_ele))
    out['GoRT'] = (out['HoRT'][0] - out['SoR'][0], out['HoRT'][1] + out['SoR'][1])
    return out
