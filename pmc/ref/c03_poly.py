"""Boring reference for C03: generalised polynomials  Cp/R = sum_k c_k T^k  (k integer, may be
negative) with closed-form integrals, and piecewise sources made of such polynomials.

Nothing here looks at pMuTT.  A polynomial is a dict {exponent(int): coefficient(float)}.

    Cp(T)/R              = sum c_k T^k
    I_H(T) = int Cp dT   = sum c_k T^(k+1)/(k+1)      (k != -1),   c_-1 ln T
    I_S(T) = int Cp/T dT = sum c_k T^k/k              (k != 0),    c_0  ln T

A piecewise source is a list of (T_upper_inclusive, poly) in ascending order; the last T_upper is
+inf.  Data at a break temperature belong to the lower piece (that is how the fitters split
their data: low = T <= T_mid, high = T > T_mid).

H and S of the source, anchored at (T_ref, HoRT_ref, SoR_ref):
    H(T)/RT = ( HoRT_ref*T_ref + int_{T_ref}^{T} Cp dT ) / T
    S(T)/R  =   SoR_ref        + int_{T_ref}^{T} Cp/T dT
with the integrals taken piece by piece (so H and S are continuous whatever the pieces are).
"""
import math


def cp(poly, T):
    return math.fsum(c * T ** k for k, c in poly.items())


def int_h(poly, T):
    tot = []
    for k, c in poly.items():
        if k == -1:
            tot.append(c * math.log(T))
        else:
            tot.append(c * T ** (k + 1) / (k + 1))
    return math.fsum(tot)


def int_s(poly, T):
    tot = []
    for k, c in poly.items():
        if k == 0:
            tot.append(c * math.log(T))
        else:
            tot.append(c * T ** k / k)
    return math.fsum(tot)


def piece_of(pieces, T):
    """Index of the piece that owns temperature T (break belongs to the lower piece)."""
    for i, (up, _) in enumerate(pieces):
        if T <= up:
            return i
    return len(pieces) - 1


def cp_pw(pieces, T):
    return cp(pieces[piece_of(pieces, T)][1], T)


def _definite(pieces, f, a, b):
    """int_a^b over the piecewise source of the antiderivative family f (int_h or int_s)."""
    if a == b:
        return 0.0
    if a > b:
        return -_definite(pieces, f, b, a)
    parts = []
    lo = a
    for i, (up, poly) in enumerate(pieces):
        if up <= lo and i < len(pieces) - 1:
            continue
        hi = min(up, b)
        if hi > lo:
            parts.append(f(poly, hi) - f(poly, lo))
            lo = hi
        if lo >= b:
            break
    return math.fsum(parts)


def horT(pieces, T, T_ref, HoRT_ref):
    return (HoRT_ref * T_ref + _definite(pieces, int_h, T_ref, T)) / T


def sor(pieces, T, T_ref, SoR_ref):
    return SoR_ref + _definite(pieces, int_s, T_ref, T)


def single(poly):
    return [(float('inf'), dict(poly))]


def piecewise(polys, breaks):
    assert len(polys) == len(breaks) + 1
    ups = list(breaks) + [float('inf')]
    return [(float(u), dict(p)) for u, p in zip(ups, polys)]


def jsonable_pieces(pieces):
    return [[('inf' if math.isinf(u) else u), {str(k): v for k, v in p.items()}] for u, p in pieces]


def from_jsonable(jp):
    return [((float('inf') if u == 'inf' else float(u)), {int(k): float(v) for k, v in p.items()})
            for u, p in jp]
