"""Reference record builder for C15 (pmutt.io.excel.read_excel).

Written from the documentation only (docstring of read_excel and of the set_* helpers, the
"Presets" section of docs/source/api/statmech/statmech.rst, the release note "the preset will not
overwrite any previously set values").  It never imports pmutt: classes are named by their dotted
path, and the implementation's record is brought to the same canonical, JSON-able form by
`canon_record`.

Canonical form of a value
    number            -> float (so that pandas' int/float column typing is not over-specified)
    string            -> string
    class             -> 'class:<module>.<qualname>'
    list              -> list of canonical values (order matters)
    dict              -> dict of canonical values
    numpy array       -> {'ndarray': [floats]}
    NaN / None / NaT  -> 'EMPTY!'   (never equal to anything the reference produces)

The header grammar is *exact* (prefix / equality on the trimmed header), not the substring chain
of the implementation, and repeated headers are handled natively (no knowledge of the
'.1', '.2' suffixes a spreadsheet library may add).
"""
import math
import re

STATMECH = 'class:pmutt.statmech.StatMech'
EMPTYMODE = 'class:pmutt.statmech.EmptyMode'
CONSTANTMODE = 'class:pmutt.statmech.ConstantMode'

# documented classes per mode column (module that the column's documentation points to)
MODE_CLASSES = {
    'trans_model': {'FreeTrans': 'class:pmutt.statmech.trans.FreeTrans'},
    'vib_model': {'HarmonicVib': 'class:pmutt.statmech.vib.HarmonicVib',
                  'QRRHOVib': 'class:pmutt.statmech.vib.QRRHOVib',
                  'EinsteinVib': 'class:pmutt.statmech.vib.EinsteinVib',
                  'DebyeVib': 'class:pmutt.statmech.vib.DebyeVib'},
    'rot_model': {'RigidRotor': 'class:pmutt.statmech.rot.RigidRotor'},
    'elec_model': {'GroundStateElec': 'class:pmutt.statmech.elec.GroundStateElec',
                   'LSR': 'class:pmutt.statmech.lsr.LSR',
                   'ExtendedLSR': 'class:pmutt.statmech.lsr.ExtendedLSR'},
    'nucl_model': {'EmptyNucl': 'class:pmutt.statmech.nucl.EmptyNucl'},
}

# "Presets" tables of the documentation; 'required' / 'optional' are the bookkeeping fields the
# presets docstring describes ("parameters that still need to be passed"); they are compared as
# sets of names.
PRESETS = {
    'idealgas': {
        'model': STATMECH,
        'trans_model': 'class:pmutt.statmech.trans.FreeTrans',
        'n_degrees': 3.0,
        'vib_model': 'class:pmutt.statmech.vib.HarmonicVib',
        'elec_model': 'class:pmutt.statmech.elec.GroundStateElec',
        'rot_model': 'class:pmutt.statmech.rot.RigidRotor',
        'required': {'names': sorted(['molecular_weight', 'vib_wavenumbers', 'potentialenergy', 'spin',
                                      'geometry', 'rot_temperatures', 'symmetrynumber'])},
        'optional': {'names': ['atoms']},
    },
    'harmonic': {
        'model': STATMECH,
        'vib_model': 'class:pmutt.statmech.vib.HarmonicVib',
        'elec_model': 'class:pmutt.statmech.elec.GroundStateElec',
        'required': {'names': sorted(['vib_wavenumbers', 'potentialenergy', 'spin'])},
    },
    'electronic': {
        'model': STATMECH,
        'elec_model': 'class:pmutt.statmech.elec.GroundStateElec',
        'required': {'names': sorted(['potentialenergy', 'spin'])},
    },
    'placeholder': {
        'model': STATMECH,
        'trans_model': EMPTYMODE, 'vib_model': EMPTYMODE, 'elec_model': EMPTYMODE,
        'rot_model': EMPTYMODE, 'nucl_model': EMPTYMODE,
        'required': {'names': []},
    },
    'constant': {
        'model': STATMECH,
        'elec_model': CONSTANTMODE,
        'optional': {'names': sorted(['q', 'Cv', 'Cp', 'U', 'H', 'S', 'F', 'G'])},
    },
}

NAME_SET_KEYS = ('required', 'optional')


class RefError(Exception):
    """The sheet is outside what the reference (= the documentation) defines."""


# ----------------------------------------------------------------- cells
def is_empty(cell):
    return cell is None


def cell_value(cell):
    """Canonical value of a non-empty cell: strings trimmed, numbers as float."""
    if isinstance(cell, str):
        return cell.strip()
    if isinstance(cell, bool):
        raise RefError('boolean cells are outside the alphabet')
    if isinstance(cell, (int, float)):
        return float(cell)
    raise RefError('unsupported cell %r' % (cell,))


def parse_formula(text):
    """'C2H6O' -> {'C': 2.0, 'H': 6.0, 'O': 1.0}; an element may appear only once
    (set_formula: "an element cannot be specified multiple times")."""
    out = {}
    pos = 0
    for m in re.finditer(r'([A-Z][a-z]?)([0-9]*)', text):
        if m.start() != pos:
            raise RefError('formula %r not understood' % text)
        pos = m.end()
        sym, n = m.group(1), m.group(2)
        if sym in out:
            raise RefError('formula %r repeats an element' % text)
        out[sym] = float(int(n)) if n else 1.0
    if pos != len(text) or not out:
        raise RefError('formula %r not understood' % text)
    return out


# --------------------------------------------------------------- records
def expected_record(headers, row):
    """Record for one data row (canonical form)."""
    rec = {}
    preset = None
    for head, cell in zip(headers, row):
        if is_empty(cell):
            continue                                   # empty cells never appear
        h = head.strip()
        v = cell_value(cell)
        parts = h.split('.')
        if parts[0] == 'element' and len(parts) == 2:
            rec.setdefault('elements', {})[parts[1]] = v
        elif h == 'formula':
            if 'elements' in rec:
                raise RefError('formula and element.X filled in the same row')
            rec['elements'] = parse_formula(v)
        elif h == 'vib_wavenumber':
            rec.setdefault('vib_wavenumbers', []).append(v)
        elif h == 'rot_temperature':
            rec.setdefault('rot_temperatures', []).append(v)
        elif parts[0] == 'list' and len(parts) in (2, 3):
            if len(parts) == 3 and not parts[2].isdigit():
                raise RefError('list header %r' % h)
            rec.setdefault(parts[1], []).append(v)
        elif parts[0] == 'dict' and len(parts) == 3:
            rec.setdefault(parts[1], {})[parts[2]] = v
        elif parts[0] == 'nasa' and len(parts) == 3 and parts[1] in ('a_low', 'a_high'):
            i = int(parts[2])
            if not 0 <= i <= 6:
                raise RefError('nasa index %d' % i)
            arr = rec.setdefault(parts[1], {'ndarray': [0.0] * 7})
            arr['ndarray'][i] = v
        elif h == 'statmech_model':
            name = v.lower()
            if name not in PRESETS:
                raise RefError('preset %r' % v)
            preset = name
            rec['model'] = STATMECH
        elif h in MODE_CLASSES:
            if v in MODE_CLASSES[h]:
                rec[h] = MODE_CLASSES[h][v]
            elif v.lower() == 'emptymode':
                rec[h] = EMPTYMODE
            else:
                raise RefError('%s %r is not a documented class' % (h, v))
            rec['model'] = STATMECH
        else:
            for word in ('element', 'formula', 'atoms', 'vib_outcar', 'nasa', 'list.', 'dict.', '_model',
                         'vib_wavenumber', 'rot_temperature', 'Unnamed'):
                if word in h:
                    raise RefError('header %r is neither ordinary nor a documented special' % h)
            rec[h] = v
    if preset is not None:
        # a preset only supplies what the row did not set itself, wherever its column stands
        for k, val in PRESETS[preset].items():
            if k not in rec:
                rec[k] = val
    return rec


def data_rows(rows):
    """Data rows of a sheet: trailing rows without any cell do not exist in the file."""
    rows = [list(r) for r in rows]
    while rows and all(is_empty(c) for c in rows[-1]):
        rows.pop()
    return rows


def expected_records(headers, rows):
    return [expected_record(headers, r) for r in data_rows(rows)]


# ------------------------------------------------- implementation -> canonical
def canon_value(v):
    import numpy as np
    if v is None:
        return 'EMPTY!'
    if isinstance(v, str):
        return v
    if isinstance(v, type):
        return 'class:%s.%s' % (v.__module__, v.__qualname__)
    if isinstance(v, (bool, np.bool_)):
        return 'bool:%s' % bool(v)
    if isinstance(v, (int, float, np.integer, np.floating)):
        f = float(v)
        return 'EMPTY!' if math.isnan(f) else f
    if isinstance(v, np.ndarray):
        return {'ndarray': [canon_value(x) for x in v.tolist()]}
    if isinstance(v, dict):
        return {str(k): canon_value(x) for k, x in v.items()}
    if isinstance(v, list):
        return [canon_value(x) for x in v]
    if isinstance(v, tuple):
        return {'tuple': [canon_value(x) for x in v]}
    try:
        import pandas as pd
        if pd.isnull(v):
            return 'EMPTY!'
    except Exception:
        pass
    return 'object:%r' % (v,)


def canon_record(rec):
    out = {}
    for k, v in rec.items():
        if k in NAME_SET_KEYS and isinstance(v, (tuple, str)):
            names = [v] if isinstance(v, str) else list(v)
            out[k] = {'names': sorted(str(n) for n in names)}
        else:
            out[k if isinstance(k, str) else 'key:%r' % (k,)] = canon_value(v)
    return out


def has_empty(v):
    """True when a canonical value contains an empty-cell marker or an empty string."""
    if isinstance(v, str):
        return v == 'EMPTY!' or v == ''
    if isinstance(v, dict):
        return any(has_empty(x) for x in v.values())
    if isinstance(v, list):
        return any(has_empty(x) for x in v)
    return False


def first_difference(obs, exp):
    """(key, kind) of the first differing key of two canonical records, or None."""
    for k in sorted(set(obs) | set(exp)):
        if k not in obs:
            return k, 'missing'
        if k not in exp:
            return k, 'unexpected'
        if obs[k] != exp[k]:
            return k, 'value'
    return None
