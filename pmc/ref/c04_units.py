"""Reference for C04: what ONE unit of every key of the gas-constant table is worth in SI, so that the
ratio between the same quantity asked in two units can be compared with a conversion factor that does
not come from pMuTT.  Nothing here imports pMuTT.

Molar keys: value of one `<unit>` (without the trailing /K) in J/mol.  Per-molecule keys (eV, Eh, Ha):
value of one unit in J, multiplied by the Avogadro constant so that everything is per mole.
Sources: SI brochure 9th ed. (exact: atm = 101325 Pa, torr = atm/760, thermochemical cal = 4.184 J,
e, N_A), CODATA 2018 Hartree energy.  pMuTT tabulates CODATA-2014 numbers with 8 significant digits; the
RATIO of two of its entries agrees with the ratio of these factors to < 1e-8 (measured), the clause allows
1e-7 (two entries, each half a unit of the 8th digit).
"""
N_A = 6.02214076e23
E_CHARGE = 1.602176634e-19
HARTREE = 4.3597447222071e-18

JOULE_PER_MOL = {
    'J/mol/K': 1.0, 'kJ/mol/K': 1.0e3, 'L kPa/mol/K': 1.0, 'cm3 kPa/mol/K': 1.0e-3, 'm3 Pa/mol/K': 1.0,
    'cm3 MPa/mol/K': 1.0, 'm3 bar/mol/K': 1.0e5, 'L bar/mol/K': 100.0, 'L torr/mol/K': 101.325 / 760.0,
    'cal/mol/K': 4.184, 'kcal/mol/K': 4184.0, 'L atm/mol/K': 101.325, 'cm3 atm/mol/K': 0.101325,
    'eV/K': E_CHARGE * N_A, 'Eh/K': HARTREE * N_A, 'Ha/K': HARTREE * N_A,
}
RATIO_RTOL = 1e-7


def ratio(unit, base):
    """(number in `unit`) / (number in `base`) for one and the same physical quantity."""
    return JOULE_PER_MOL[base] / JOULE_PER_MOL[unit]
