"""Reference side for the reaction properties (C08, C09).

Nothing here looks at pmutt.reaction: species are built from the public species
classes, a state quantity is sum(nu_i * X_i) (product of powers for q) with X_i taken
from the species' own getter, and the keyword routing is re-stated in its documented
form (global keywords, overridden by the block `<name>_kwargs`, other blocks dropped;
a getter without **kwargs only receives the keywords it names).
"""
import inspect
import math

import numpy as np

COEFFS = [0.25, 0.5, 1.0, 1.5, 2.0, 3.0, 4.0]      # dyadic: exact in binary floating point

# dimensionless getters (name of the quantity -> species method)
QUANT = ['q', 'CvoR', 'CpoR', 'UoRT', 'HoRT', 'SoR', 'FoRT', 'GoRT', 'EoRT']
ALL9 = frozenset(QUANT)
EMP4 = frozenset(['CpoR', 'HoRT', 'SoR', 'GoRT'])
# what each pool class implements itself (inherited _ModelBase placeholders are not "supported")
SUPPORT = {
    'SG': ALL9, 'SA': ALL9, 'CM': ALL9, 'TSM': ALL9, 'TS2': ALL9,
    'XSG': EMP4, 'NS': EMP4, 'SH': EMP4, 'N9': EMP4, 'TSN': EMP4,
    # a BEP carries U, H, S, F, G (and the trivial q=1, Cv=Cp=0 of its base class); no E
    'BEP': frozenset(['q', 'CvoR', 'CpoR', 'UoRT', 'HoRT', 'SoR', 'FoRT', 'GoRT']),
    'BEPE': frozenset(['q', 'CvoR', 'CpoR', 'UoRT', 'HoRT', 'SoR', 'FoRT', 'GoRT']),
    'BEPR': frozenset(['q', 'CvoR', 'CpoR', 'UoRT', 'HoRT', 'SoR', 'FoRT', 'GoRT']),
}
STATMECH_KEYS = ('SG', 'SA', 'CM', 'TSM', 'TS2')
# 'XSG' ends with 'SG' on purpose: a keyword block addressed to the longer name must not reach the shorter one
SIDE_POOL = ['SG', 'SA', 'CM', 'XSG', 'NS', 'SH', 'N9']


def build_species(key, surface_bep=False):
    """A fresh pool species.  Magnitudes are kept moderate (|G/RT| < ~45) so that
    equilibrium constants of 4-species sides stay finite."""
    from pmutt.statmech import StatMech, ConstantMode
    from pmutt.statmech.trans import FreeTrans
    from pmutt.statmech.vib import HarmonicVib
    from pmutt.statmech.rot import RigidRotor
    from pmutt.statmech.elec import GroundStateElec
    from pmutt.empirical.nasa import Nasa, Nasa9, SingleNasa9
    from pmutt.empirical.shomate import Shomate
    if key == 'SG':      # ideal gas: translation (P dependent), rotation, vibration, electronic
        return StatMech(name='SG', elements={'H': 2},
                        trans_model=FreeTrans(n_degrees=3, molecular_weight=2.016),
                        vib_model=HarmonicVib(vib_wavenumbers=[4306.18]),
                        rot_model=RigidRotor(symmetrynumber=2, rot_temperatures=[85.3],
                                             geometry='linear'),
                        elec_model=GroundStateElec(potentialenergy=-0.31, spin=0))
    if key == 'SA':      # adsorbate: harmonic vibrations + electronic
        return StatMech(name='SA', elements={'H': 1},
                        vib_model=HarmonicVib(vib_wavenumbers=[1901.5, 423.0, 381.25]),
                        elec_model=GroundStateElec(potentialenergy=-0.52, spin=0))
    if key == 'CM':      # every quantity an independent constant
        return StatMech(name='CM', elements={'H': 1},
                        elec_model=ConstantMode(q=1.5, Cv=1.25e-4, Cp=2.5e-4, U=0.21, H=0.26,
                                                S=3.0e-4, F=0.11, G=0.17))
    if key == 'TSM':
        return StatMech(name='TSM', elements={'H': 3},
                        vib_model=HarmonicVib(vib_wavenumbers=[2105.0, 988.5, 640.0, 212.75]),
                        elec_model=GroundStateElec(potentialenergy=0.33, spin=0.5))
    if key == 'TS2':
        return StatMech(name='TS2', elements={'H': 1},
                        vib_model=HarmonicVib(vib_wavenumbers=[1500.0, 305.5]),
                        elec_model=GroundStateElec(potentialenergy=0.12, spin=0))
    if key == 'XSG':
        return Nasa(name='XSG', T_low=200., T_mid=600., T_high=3500., phase='G', elements={'H': 2},
                    a_low=[3.21, 1.1e-3, -2.0e-6, 1.5e-9, -3.0e-13, -450.0, 5.5],
                    a_high=[3.05, 1.4e-3, -1.1e-6, 3.0e-10, -2.0e-14, -395.0, 6.25])
    if key == 'NS':
        return Nasa(name='NS', T_low=200., T_mid=600., T_high=3500., phase='S', elements={'H': 1},
                    a_low=[0.55, 6.2e-3, -4.0e-6, 1.2e-9, -1.0e-13, -2310.0, -2.75],
                    a_high=[1.35, 3.9e-3, -1.9e-6, 4.0e-10, -3.0e-14, -2450.0, -6.5])
    if key == 'TSN':
        return Nasa(name='TSN', T_low=200., T_mid=600., T_high=3500., phase='S', elements={'H': 3},
                    a_low=[1.15, 5.0e-3, -3.0e-6, 1.0e-9, -1.0e-13, 1820.0, 1.5],
                    a_high=[2.05, 2.9e-3, -1.2e-6, 2.0e-10, -1.0e-14, 1705.0, -2.25])
    if key == 'SH':
        return Shomate(name='SH', T_low=200., T_high=3500., phase='G', elements={'O': 2},
                       a=[30.03, 6.83, 6.79, -2.53, 0.082, -9.05, 219.5, 0.0])
    if key == 'N9':
        return Nasa9(name='N9', phase='G', elements={'O': 1, 'H': 2}, nasas=[
            SingleNasa9(T_low=200., T_high=600.,
                        a=[1.2e4, -55.0, 3.55, 1.05e-3, -1.5e-7, 0.0, 0.0, -310.0, 4.25]),
            SingleNasa9(T_low=600., T_high=3500.,
                        a=[2.1e4, -90.0, 3.72, 8.5e-4, -9.0e-8, 0.0, 0.0, -255.0, 3.5])])
    if key in ('BEP', 'BEPE', 'BEPR'):
        desc = {'BEP': 'delta_H', 'BEPE': 'delta_E', 'BEPR': 'rev_delta_H'}[key]
        if surface_bep:
            from pmutt.omkm.reaction import BEP
        else:
            from pmutt.reaction.bep import BEP
        return BEP(name=key, slope=0.375, intercept=11.5, descriptor=desc)
    raise KeyError(key)


# ------------------------------------------------------------------ keyword routing
def effective_kwargs(name, kw):
    """Documented routing: global keywords, overridden by the species' own block."""
    eff = {k: v for k, v in kw.items() if 'kwargs' not in k}
    block = kw.get('%s_kwargs' % name)
    if isinstance(block, dict):
        eff.update(block)
    return eff


def call_getter(method, eff):
    """Call a getter with the keywords it can take."""
    params = inspect.signature(method).parameters
    if any(p.kind == p.VAR_KEYWORD for p in params.values()):
        return method(**eff)
    return method(**{k: v for k, v in eff.items() if k in params})


def species_value(sp, quant, kw, reaction=None):
    """X_i of one species under its effective conditions (species' own getter)."""
    eff = effective_kwargs(sp.name, kw)
    if reaction is not None and type(sp).__name__ == 'BEP':
        eff['reaction'] = reaction
    v = call_getter(getattr(sp, 'get_' + quant), eff)
    return float(np.asarray(v, dtype=float).ravel()[0]) if np.size(v) == 1 else v


def combine(terms, quant):
    """terms = [(nu, X)]; sum for state functions, product of powers for q."""
    if quant == 'q':
        out = 1.0
        for nu, x in terms:
            out *= x ** nu
        return out
    return math.fsum(nu * x for nu, x in terms)


def magnitude(terms):
    return math.fsum(abs(nu * x) for nu, x in terms)
