"""Independent fixed-column reader (and formatter) for Chemkin thermdat files.

Written from the Chemkin manual's description of the THERMO data block, not from
pMuTT.  Columns below are 1-based, inclusive:

    record 1   species name          starts in column 1, ends at the first blank, within 1-18
               date / free text      rest of columns 1-24 after the name
               composition           columns 25-44 = 4 groups of (symbol A2, count I3)
               phase                 column 45
               T_low, T_high, T_mid  columns 46-55, 56-65, 66-75
               (blank)               columns 76-79
               record number '1'     column 80
    record 2   a_high[0..4]          5 fields of 15 characters (columns 1-75), '2' in column 80
    record 3   a_high[5..6], a_low[0..2]                                     , '3' in column 80
    record 4   a_low[3..6]           4 fields of 15 characters (columns 1-60), '4' in column 80

A line is a *record* iff it has a digit 1-4 in column 80 and is not a comment; every
other line must be one of: the keyword line THERMO [ALL], the header line with the three
default temperatures, a comment (first character '!'), a blank line, the keyword END.
Nothing in this module looks for keywords *inside* a line, so species called END or
MYTHERMO are ordinary species here.

parse(text) never repairs anything: whatever does not fit the layout is reported in
`problems` (list of strings); the species that could be decoded are returned anyway.
"""
import re

_NUM = re.compile(r'^[ ]*[-+]?(\d+\.?\d*|\.\d+)([EeDd][-+]?\d+)?[ ]*$')
KEYWORD_LINES = ('THERMO', 'THERMO ALL', 'END')


def split_lines(text):
    """Physical lines of a file image; accepts \\n and \\r\\n (a lone \\r is *not* a break)."""
    lines = text.split('\n')
    if lines and lines[-1] == '':
        lines.pop()
    return [ln[:-1] if ln.endswith('\r') else ln for ln in lines]


def _is_three_numbers(line):
    f = line.split()
    if len(f) != 3:
        return False
    return all(_NUM.match(x) for x in f)


def classify(line):
    """'comment' | 'blank' | 'record1'..'record4' | 'keyword' | 'temps' | 'unknown'."""
    if line.startswith('!'):
        return 'comment'
    if line.strip() == '':
        return 'blank'
    if len(line) >= 80 and line[79] in '1234':
        return 'record' + line[79]
    if line.strip() in KEYWORD_LINES:
        return 'keyword'
    if _is_three_numbers(line):
        return 'temps'
    return 'unknown'


def _fnum(field, what, problems):
    if not _NUM.match(field):
        problems.append('%s: %r is not a number' % (what, field))
        return None
    return float(field.replace('D', 'E').replace('d', 'e'))


def parse_record1(line, problems, tag=''):
    sp = {}
    if len(line) != 80:
        problems.append('%srecord 1 has %d columns, expected 80' % (tag, len(line)))
    line = line.ljust(80)
    head = line[:24]
    if head[0] == ' ':
        problems.append('%sspecies name does not start in column 1' % tag)
    name = head.split(' ', 1)[0] if head.strip() else ''
    if name == '' or len(name) > 18:
        problems.append('%sspecies name empty or longer than its field' % tag)
    sp['name'] = name
    sp['notes'] = head[len(name):].strip()
    # the name is terminated by a blank that lies inside columns 1-18
    if len(name) >= 18 or (len(name) < 24 and head[len(name)] != ' '):
        problems.append('%sspecies name not terminated by a blank' % tag)
    elements = []
    for g in range(4):
        grp = line[24 + 5 * g: 29 + 5 * g]
        sym, cnt = grp[:2], grp[2:]
        if sym.strip() == '':
            if cnt.strip() not in ('', '0'):
                problems.append('%scomposition group %d has a count %r without a symbol' % (tag, g + 1, cnt))
            continue
        if sym[0] == ' ' or not sym.strip().isalpha():
            problems.append('%scomposition group %d: bad symbol %r' % (tag, g + 1, sym))
        try:
            n = int(cnt)       # int() accepts surrounding blanks, refuses '', '2.', 'H1'
        except ValueError:
            problems.append('%scomposition group %d: count %r is not an integer' % (tag, g + 1, cnt))
            continue
        elements.append([sym.strip(), n])
    sp['elements'] = elements
    sp['phase'] = line[44]
    sp['T_low'] = _fnum(line[45:55], tag + 'T_low (columns 46-55)', problems)
    sp['T_high'] = _fnum(line[55:65], tag + 'T_high (columns 56-65)', problems)
    sp['T_mid'] = _fnum(line[65:75], tag + 'T_mid (columns 66-75)', problems)
    if line[75:79].strip() != '':
        problems.append('%scolumns 76-79 of record 1 not blank: %r' % (tag, line[75:79]))
    return sp


def parse_coeff_record(line, n, problems, tag=''):
    if len(line) != 80:
        problems.append('%shas %d columns, expected 80' % (tag, len(line)))
    line = line.ljust(80)
    vals = []
    for k in range(n):
        vals.append(_fnum(line[15 * k: 15 * k + 15], '%sfield %d' % (tag, k + 1), problems))
    if line[15 * n:79].strip() != '':
        problems.append('%stext after the last coefficient field: %r' % (tag, line[15 * n:79]))
    return vals


def parse(text, inner_end=False):
    """-> dict(species=[...], problems=[...], counts={line class: n}, n_records=int).

    inner_end=True: the text is allowed to hold whole thermdat blocks one after the other (a complete
    file given as supplementary data), i.e. records may follow an END line; the *last* non-blank,
    non-comment line must then still be END.  The number of END lines is returned as n_end.

    species entries: name, notes, elements [[symbol, count], ...] (zero counts kept as read),
    phase, T_low, T_high, T_mid, a_high (7), a_low (7).
    """
    problems = []
    species = []
    counts = {}
    expect = 1
    cur = None
    seen_end = False
    last = None
    n_end = 0
    for ln, line in enumerate(split_lines(text), 1):
        kind = classify(line)
        counts[kind] = counts.get(kind, 0) + 1
        if kind in ('comment', 'blank'):
            continue
        last = 'END' if (kind == 'keyword' and line.strip() == 'END') else kind
        if kind == 'temps':
            continue
        if kind == 'keyword':
            if line.strip() == 'END':
                seen_end = True
                n_end += 1
                if expect != 1:
                    problems.append('line %d: END inside a species entry' % ln)
            continue
        if kind == 'unknown':
            problems.append('line %d: not a record, keyword, comment or header: %r' % (ln, line[:90]))
            continue
        rec = int(kind[-1])
        tag = 'line %d (record %d): ' % (ln, rec)
        if seen_end and not inner_end:
            problems.append(tag + 'record after END')
        if rec != expect:
            problems.append(tag + 'expected record %d' % expect)
            if rec != 1:
                continue
        if rec == 1:
            cur = parse_record1(line, problems, tag)
            cur['a_high'] = [None] * 7
            cur['a_low'] = [None] * 7
            expect = 2
        elif rec == 2:
            cur['a_high'][0:5] = parse_coeff_record(line, 5, problems, tag)
            expect = 3
        elif rec == 3:
            v = parse_coeff_record(line, 5, problems, tag)
            cur['a_high'][5:7] = v[0:2]
            cur['a_low'][0:3] = v[2:5]
            expect = 4
        else:
            cur['a_low'][3:7] = parse_coeff_record(line, 4, problems, tag)
            species.append(cur)
            cur = None
            expect = 1
    if expect != 1:
        problems.append('file ends inside a species entry (record %d expected)' % expect)
    if not seen_end:
        problems.append('no END line')
    elif inner_end and last != 'END':
        problems.append('the last line of the data is not END')
    n_records = sum(v for k, v in counts.items() if k.startswith('record'))
    return dict(species=species, problems=problems, counts=counts, n_records=n_records, n_end=n_end)


# ----------------------------------------------------------------------------- formatter
def _e15(x):
    """Fortran E15.8 with a two-digit exponent, sign in the first column."""
    s = '%15.8E' % x
    if len(s) != 15:
        raise ValueError('coefficient %r does not fit E15.8' % (x,))
    return s


def format_entry(sp):
    """One species (same dict layout as parse() returns) as four 80-column records
    joined by '\\n' (no trailing newline).  Used for supplementary data and to
    self-test the parser."""
    head = sp['name'].ljust(18)
    head = (head[:18] + (sp.get('notes') or '')[:6]).ljust(24)
    if len(head) != 24 or ' ' not in head[:18]:
        raise ValueError('name/notes do not fit')
    comp = ''
    for sym, n in sp['elements']:
        comp += '%-2s%3d' % (sym, n)
    comp = comp.ljust(20)
    if len(comp) != 20:
        raise ValueError('composition does not fit')
    r1 = head + comp + sp['phase'] + '%10.3f%10.3f%10.3f' % (sp['T_low'], sp['T_high'], sp['T_mid'])
    r1 = r1.ljust(79) + '1'
    ah, al = sp['a_high'], sp['a_low']
    r2 = ''.join(_e15(v) for v in ah[0:5]).ljust(79) + '2'
    r3 = ''.join(_e15(v) for v in list(ah[5:7]) + list(al[0:3])).ljust(79) + '3'
    r4 = ''.join(_e15(v) for v in al[3:7]).ljust(79) + '4'
    for r in (r1, r2, r3, r4):
        if len(r) != 80:
            raise ValueError('record does not fit 80 columns: %r' % r)
    return '\n'.join([r1, r2, r3, r4])


# ----------------------------------------------------------------------------- NASA-7 formulas
def nasa7(a, T):
    """(Cp/R, H/RT, S/R) and the sums of absolute terms (for tolerances) of one
    seven-coefficient NASA polynomial (Gordon & McBride form)."""
    import math
    cp_t = [a[0], a[1] * T, a[2] * T ** 2, a[3] * T ** 3, a[4] * T ** 4]
    h_t = [a[0], a[1] * T / 2., a[2] * T ** 2 / 3., a[3] * T ** 3 / 4., a[4] * T ** 4 / 5., a[5] / T]
    s_t = [a[0] * math.log(T), a[1] * T, a[2] * T ** 2 / 2., a[3] * T ** 3 / 3., a[4] * T ** 4 / 4., a[6]]
    vals = (math.fsum(cp_t), math.fsum(h_t), math.fsum(s_t))
    mags = (math.fsum(abs(v) for v in cp_t), math.fsum(abs(v) for v in h_t),
            math.fsum(abs(v) for v in s_t))
    return vals, mags
