"""Reference reader for the Chemkin input files pMuTT writes (C06).  Independent of pMuTT.

Boring line-oriented section splitters for gas.inp, surf.inp, EAs.inp / EAg.inp, T_flow.inp and
tube_mole.inp plus an equation parser that is told the delimiters that were requested.  Nothing
in here imports pMuTT; nothing uses regular expressions shared with ``pmutt.io.chemkin``.

Every splitter returns plain dicts / lists and *raises FormatError* on a file that does not
have the documented shape (missing END, data before a section keyword, a reaction line with
fewer than three numeric columns ...): a malformed file must never be read as an empty one.
"""
import math


class FormatError(Exception):
    pass


# ----------------------------------------------------------------------------- numbers
def is_number(tok):
    try:
        float(tok)
    except ValueError:
        return False
    return True


def half_ulp(tok):
    """Half a unit of the last printed digit of the decimal literal `tok`.

    '9.615E+18' -> 0.5e15,  ' 0.125' -> 0.0005,  '12' -> 0.5,  '-1.20e-03' -> 0.5e-5
    """
    t = tok.strip().lstrip('+-')
    mant, exp = t, 0
    for e in ('E', 'e', 'D', 'd'):
        if e in t:
            mant, ex = t.split(e, 1)
            exp = int(ex)
            break
    if not mant or any(ch not in '0123456789.' for ch in mant) or mant.count('.') > 1:
        raise FormatError('not a decimal literal: %r' % tok)
    ndec = len(mant.split('.', 1)[1]) if '.' in mant else 0
    return 0.5 * 10.0 ** (exp - ndec)


def number(tok):
    """(value, half unit of last printed digit, literal)"""
    if not is_number(tok):
        raise FormatError('not a number: %r' % tok)
    v = float(tok)
    if math.isnan(v) or math.isinf(v):
        return v, 0.0, tok          # a printed NaN/inf never passes a comparison
    return v, half_ulp(tok), tok


# ----------------------------------------------------------------------------- equations
def parse_side(text, species_delimiter):
    """'2H(S)+RU(B)' -> [['H(S)', 2], ['RU(B)', 1]]  (names never start with a digit)."""
    core = species_delimiter.strip()
    if not core:
        raise FormatError('blank species delimiter')
    out = []
    for term in text.split(core):
        term = term.strip()
        if not term:
            raise FormatError('empty term in %r' % text)
        k = 0
        while k < len(term) and (term[k].isdigit() or term[k] == '.'):
            k += 1
        coef, name = term[:k], term[k:].strip()
        if not name or ' ' in name or '\t' in name:
            raise FormatError('bad term %r in %r' % (term, text))
        if coef == '':
            n = 1
        else:
            n = float(coef)
            if n == int(n):
                n = int(n)
        out.append([name, n])
    return out


def parse_equation(eq, species_delimiter, reaction_delimiter):
    """-> dict(reactants=[[name, n]...], products=[[name, n]...]); exactly two sides."""
    core = reaction_delimiter.strip()
    if not core:
        raise FormatError('blank reaction delimiter')
    parts = eq.split(core)
    if len(parts) != 2:
        raise FormatError('expected exactly one %r in equation %r' % (core, eq))
    return dict(reactants=parse_side(parts[0], species_delimiter),
                products=parse_side(parts[1], species_delimiter))


def canon(side):
    """Order-free canonical form of a side: sorted [(name, n)] with repeated names summed."""
    acc = {}
    for name, n in side:
        acc[name] = acc.get(name, 0) + n
    return sorted([k, v] for k, v in acc.items())


def split_trailing_numbers(line, n=None):
    """Cut the whitespace-separated numeric columns off the right end of `line`.

    n = None: as many as there are; otherwise exactly n (FormatError if fewer).  Returns
    (head_text_rstripped, [number(tok), ...])."""
    toks = line.split()
    nums = []
    while toks and is_number(toks[-1]) and (n is None or len(nums) < n):
        nums.append(toks.pop())
    if n is not None and len(nums) != n:
        raise FormatError('expected %d numeric columns in %r' % (n, line))
    nums.reverse()
    # recover the head with its inner spacing: cut the original line where the numbers begin
    head = line.rstrip()
    for tok in reversed(nums):
        head = head.rstrip()
        if not head.endswith(tok):
            raise FormatError('cannot peel %r off %r' % (tok, line))
        head = head[:len(head) - len(tok)]
    return head.rstrip(), [number(t) for t in nums]


# ----------------------------------------------------------------------------- helpers
def _lines(text):
    if '\r' in text.replace('\r\n', '\n'):
        raise FormatError('stray carriage return')
    return text.replace('\r\n', '\n').split('\n')


def _is_comment(line):
    return line.lstrip().startswith('!')


def _reaction_block(lines, species_delimiter, reaction_delimiter):
    """lines between the REACTIONS header and END -> list of reaction entries."""
    out = []
    for ln in lines:
        if _is_comment(ln):
            continue
        if ln.strip() == '':
            raise FormatError('blank line inside REACTIONS block')
        if ln.strip() == 'STICK':
            if not out:
                raise FormatError('STICK before any reaction')
            if out[-1]['stick']:
                raise FormatError('STICK twice')
            out[-1]['stick'] = True
            continue
        head, nums = split_trailing_numbers(ln, 3)
        eq = parse_equation(head, species_delimiter, reaction_delimiter)
        out.append(dict(equation=head.strip(), reactants=eq['reactants'], products=eq['products'],
                        A=nums[0], beta=nums[1], Ea=nums[2], stick=False, raw=ln))
    return out


def _section(lines, start_kw, what):
    """Data lines (non-comment, non-blank) strictly between the line `start_kw` and the next
    'END'.  Returns (data_lines, index_after_END)."""
    try:
        i = next(k for k, ln in enumerate(lines) if ln.strip() == start_kw)
    except StopIteration:
        raise FormatError('%s: no %s line' % (what, start_kw))
    data = []
    for j in range(i + 1, len(lines)):
        s = lines[j].strip()
        if s == 'END':
            return data, j + 1
        if s and not _is_comment(lines[j]):
            data.append(lines[j])
    raise FormatError('%s: %s section without END' % (what, start_kw))


# ----------------------------------------------------------------------------- gas.inp
def split_gas(text, species_delimiter='+', reaction_delimiter='='):
    lines = _lines(text)
    if not lines or not lines[0].startswith('!'):
        raise FormatError('gas.inp: first line is not the generator comment')
    pos = 0
    ele, nxt = _section(lines[pos:], 'ELEMENTS', 'gas.inp')
    pos += nxt
    spe, nxt = _section(lines[pos:], 'SPECIES', 'gas.inp')
    pos += nxt
    rest = lines[pos:]
    idx = [k for k, ln in enumerate(rest) if ln.strip() == 'REACTIONS']
    if len(idx) != 1:
        raise FormatError('gas.inp: expected exactly one REACTIONS line after SPECIES')
    body = rest[idx[0] + 1:]
    if not body or body[-1].strip() != 'END':
        raise FormatError('gas.inp: does not end with END')
    for ln in rest[:idx[0]]:
        if ln.strip() and not _is_comment(ln):
            raise FormatError('gas.inp: stray line %r before REACTIONS' % ln)
    for ln in ele + spe:
        if len(ln.split()) != 1:
            raise FormatError('gas.inp: more than one token on line %r' % ln)
    return dict(elements=[ln.strip() for ln in ele], species=[ln.strip() for ln in spe],
                reactions=_reaction_block(body[:-1], species_delimiter, reaction_delimiter))


# ----------------------------------------------------------------------------- surf.inp
def _slashed(line):
    """'SITE/RU0001/       SDEN/2.16710E-09/' -> ['SITE', 'RU0001', 'SDEN', '2.16710E-09']"""
    fields = []
    for chunk in line.split():
        parts = chunk.split('/')
        if parts[-1] != '':
            raise FormatError('field not closed by "/": %r' % line)
        fields.extend(parts[:-1])
    return fields


def split_surf(text, species_delimiter='+', reaction_delimiter='='):
    lines = _lines(text)
    if not lines or not lines[0].startswith('!'):
        raise FormatError('surf.inp: first line is not the generator comment')
    sites, bulk = [], []
    k = 0
    cur = None
    while k < len(lines):
        ln = lines[k]
        s = ln.strip()
        k += 1
        if s == '' or _is_comment(ln):
            continue
        if s == 'END':
            break
        if s.startswith('SITE/'):
            f = _slashed(s)
            if len(f) != 4 or f[0] != 'SITE' or f[2] != 'SDEN':
                raise FormatError('surf.inp: bad SITE line %r' % ln)
            cur = dict(name=f[1], sden=number(f[3]), species=[])
            sites.append(cur)
        elif s.startswith('BULK'):
            toks = s.split()
            if len(toks) != 2 or toks[0] != 'BULK':
                raise FormatError('surf.inp: bad BULK line %r' % ln)
            f = _slashed(toks[1])
            if len(f) != 2:
                raise FormatError('surf.inp: bad BULK line %r' % ln)
            bulk.append(dict(name=f[0], density=number(f[1])))
            cur = None
        else:
            if cur is None:
                raise FormatError('surf.inp: species line %r outside a SITE block' % ln)
            f = _slashed(s)
            if len(f) != 2:
                raise FormatError('surf.inp: bad adsorbate line %r' % ln)
            if not f[1].isdigit():
                raise FormatError('surf.inp: occupancy is not an integer in %r' % ln)
            cur['species'].append([f[0], int(f[1])])
    else:
        raise FormatError('surf.inp: site section without END')
    rest = lines[k:]
    idx = [j for j, ln in enumerate(rest) if ln.split()[:1] == ['REACTIONS']]
    if len(idx) != 1:
        raise FormatError('surf.inp: expected exactly one REACTIONS line')
    for ln in rest[:idx[0]]:
        if ln.strip() and not _is_comment(ln):
            raise FormatError('surf.inp: stray line %r before REACTIONS' % ln)
    header = rest[idx[0]].split()[1:]
    body = rest[idx[0] + 1:]
    if not body or body[-1].strip() != 'END':
        raise FormatError('surf.inp: does not end with END')
    return dict(sites=sites, bulk=bulk, header=header,
                reactions=_reaction_block(body[:-1], species_delimiter, reaction_delimiter))


# ----------------------------------------------------------------------------- EA*.inp
def _run_header(line):
    """'!        1     2     3' -> [1, 2, 3]"""
    if not line.startswith('!'):
        raise FormatError('column header does not start with "!": %r' % line)
    toks = line[1:].split()
    if any(not t.isdigit() for t in toks):
        raise FormatError('column header holds a non-integer: %r' % line)
    return [int(t) for t in toks]


def split_EA(text, species_delimiter='+', reaction_delimiter='<=>'):
    lines = _lines(text)
    if lines[-1].strip() != 'EOF':
        raise FormatError('EA: does not end with EOF')
    body = lines[:-1]
    k = 0
    while k < len(body) and _is_comment(body[k]):
        k += 1
    if k >= len(body):
        raise FormatError('EA: no count line')
    toks = body[k].split()
    if not toks or not toks[0].isdigit():
        raise FormatError('EA: count line %r' % body[k])
    declared = int(toks[0])
    if k + 1 >= len(body):
        raise FormatError('EA: no column header')
    header = _run_header(body[k + 1])
    rows = []
    for ln in body[k + 2:]:
        if ln.strip() == '' or _is_comment(ln):
            raise FormatError('EA: blank or comment line among the rows: %r' % ln)
        head, nums = split_trailing_numbers(ln)
        eq = parse_equation(head, species_delimiter, reaction_delimiter)
        rows.append(dict(equation=head.strip(), reactants=eq['reactants'], products=eq['products'],
                         values=nums, raw=ln))
    return dict(declared=declared, header=header, rows=rows)


# ----------------------------------------------------------------------------- T_flow.inp
def split_T_flow(text):
    lines = _lines(text)
    if lines[-1].strip() != 'EOF':
        raise FormatError('T_flow: does not end with EOF')
    rows = []
    for ln in lines[:-1]:
        if _is_comment(ln):
            continue
        if '!' not in ln:
            raise FormatError('T_flow: row without run number: %r' % ln)
        data, run = ln.split('!', 1)
        toks = data.split()
        if len(toks) != 4:
            raise FormatError('T_flow: expected 4 columns in %r' % ln)
        if not run.strip().isdigit():
            raise FormatError('T_flow: run number %r' % run)
        rows.append(dict(T=number(toks[0]), P=number(toks[1]), Q=number(toks[2]),
                         abyv=number(toks[3]), run=int(run.strip())))
    return dict(rows=rows)


# ----------------------------------------------------------------------------- tube_mole.inp
def split_tube_mole(text):
    lines = _lines(text)
    if lines[-1].strip() != 'EOF':
        raise FormatError('tube_mole: does not end with EOF')
    body = [ln for ln in lines[:-1]]
    k = 0
    while k < len(body) and _is_comment(body[k]):
        k += 1
    if k + 2 >= len(body) + 1:
        raise FormatError('tube_mole: truncated')
    restart = body[k].split()
    if not restart or restart[0] != '0' or 'itube_restart' not in body[k]:
        raise FormatError('tube_mole: restart line %r' % body[k])
    cnt = body[k + 1].split()
    if not cnt or not cnt[0].isdigit() or 'Number of nonzero species' not in body[k + 1]:
        raise FormatError('tube_mole: count line %r' % body[k + 1])
    declared = int(cnt[0])
    header = _run_header(body[k + 2])
    rows = []
    for ln in body[k + 3:]:
        s = ln.strip()
        if not s.startswith("'"):
            raise FormatError('tube_mole: row does not start with a quote: %r' % ln)
        end = s.find("'", 1)
        if end < 0:
            raise FormatError('tube_mole: unterminated quote: %r' % ln)
        label = s[1:end]
        parts = label.split('/')
        if len(parts) != 3 or parts[2] != '':
            raise FormatError("tube_mole: label is not 'species/phase/': %r" % ln)
        toks = s[end + 1:].split()
        rows.append(dict(name=parts[0], phase=parts[1], values=[number(t) for t in toks]))
    return dict(declared=declared, header=header, rows=rows)
